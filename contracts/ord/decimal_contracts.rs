// Contracts for src/decimal.rs (properties C34, C31).  Child module of the real `decimal` module.
//
// Decimal::to_integer is checked over its full domain.  Decimal::from_str is checked with std's
// integer parsing under contract (same scheme as the sat parsers, contracts/ordinals/sat_contracts.rs):
// the TEXT is one concrete string per grammar shape (number of fraction digits, number of trailing
// zeros - the quantities the parser derives from the text itself), and `u128::from_str_radix`
// returns the harness-chosen symbolic components, so all arithmetic after parsing is checked over
// the whole machine range.  Natively (replay) the harness prints the recorded components into the
// text and runs the real parser with the real std.
//
// anyhow::Error values are never dropped inside a harness (`mem::forget`): the drop glue of an
// anyhow error (vtable call + Option<Backtrace>) does not terminate in CBMC.  The error message is
// not part of any contract here.
#![allow(unused_imports, dead_code, static_mut_refs)]
use super::*;
#[cfg(not(kani))]
use crate::verif_contracts::kani;
use crate::verif_contracts::varint_contract::{backtrace_disabled, naive_count_chars, naive_memchr_aligned};

const POW10: [u128; 39] = {
  let mut t = [1u128; 39];
  let mut i = 1;
  while i < 39 {
    t[i] = t[i - 1] * 10;
    i += 1;
  }
  t
};

fn forget<T>(r: Result<T>) -> Option<T> {
  match r {
    Ok(v) => Some(v),
    Err(e) => {
      std::mem::forget(e);
      None
    }
  }
}

// ------------------------------------------------------------------------------------------ to_integer

/// contract of `10u128.checked_pow(e)`: the table POW10 for e < 39, None above (proved against the
/// real std function for every exponent 0..=255 by c34_checked_pow_table below)
pub fn contract_checked_pow(base: u128, exp: u32) -> Option<u128> {
  assert!(base == 10, "C34.to_integer.power_base_is_ten");
  if exp < 39 { Some(POW10[exp as usize]) } else { None }
}

//# props: C34
//# kind: complete (every exponent 0..=255 of the real u128::checked_pow with base 10 - the range a u8 difference can take)
//# fns: decimal::Decimal::to_integer
#[cfg_attr(kani, kani::proof)]
#[cfg_attr(kani, kani::unwind(260))]
pub fn c34_checked_pow_table() {
  let mut e: u32 = 0;
  while e <= 255 {
    assert!(10u128.checked_pow(e) == if e < 39 { Some(POW10[e as usize]) } else { None }, "C34.checked_pow.matches_table");
    e += 1;
  }
  assert!(POW10[38] == 100_000_000_000_000_000_000_000_000_000_000_000_000 && POW10[0] == 1, "C34.checked_pow.table_ends");
}

static mut UF_SET: bool = false;
static mut UF_A: u128 = 0;
static mut UF_B: u128 = 0;
static mut UF_R: Option<u128> = None;

/// 128-bit checked multiplication as an uninterpreted function (same arguments => same result):
/// CBMC cannot equate two 128x128 multipliers; the contract of to_integer does not depend on what
/// multiplication is, only on which operands reach it and what is done with the result.
pub fn uf_checked_mul(a: u128, b: u128) -> Option<u128> {
  unsafe {
    if !(UF_SET && UF_A == a && UF_B == b) {
      UF_SET = true;
      UF_A = a;
      UF_B = b;
      UF_R = kani::any();
    }
    UF_R
  }
}

/// to_integer(value, scale, divisibility) = value * 10^(divisibility - scale) exactly, or an error:
/// excess precision (divisibility < scale), power of ten out of range (difference >= 39), amount
/// overflow.  Every value, scale and divisibility; the power of ten enters under its contract.
//# props: C34
//# kind: complete (every value, scale and divisibility; loop-free given the checked_pow contract)
//# fns: decimal::Decimal::to_integer
//# assume: u128::checked_pow(10, e) is the table of powers of ten (stub; the table is checked against the real function by c34_checked_pow_table); u128::checked_mul is an uninterpreted function (the harness proves which operands are multiplied and that None becomes an error, not the multiplier circuit)
//# timeout: 600
#[cfg_attr(kani, kani::proof)]
#[cfg_attr(kani, kani::unwind(4))]
#[cfg_attr(kani, kani::stub(u128::checked_pow, contract_checked_pow))]
#[cfg_attr(kani, kani::stub(u128::checked_mul, uf_checked_mul))]
#[cfg_attr(kani, kani::stub(std::backtrace::Backtrace::capture, backtrace_disabled))]
pub fn c34_to_integer_exact() {
  let value: u128 = kani::any();
  let scale: u8 = kani::any();
  let divisibility: u8 = kani::any();
  let got = forget(Decimal { value, scale }.to_integer(divisibility));
  let spec = if divisibility < scale {
    None
  } else {
    let d = (divisibility - scale) as usize;
    if d >= 39 { None } else { value.checked_mul(POW10[d]) }
  };
  assert!(got == spec, "C34.to_integer.is_value_times_power_of_ten_or_error");
  kani::cover!(got.is_some() && divisibility - scale == 38, "largest power of ten");
  kani::cover!(got.is_none() && divisibility >= scale && divisibility - scale < 39, "amount overflow");
}

/// divisibility below the scale is "excessive precision", never a rounded value
//# props: C34
//# kind: complete (every value, scale, divisibility with divisibility < scale)
//# fns: decimal::Decimal::to_integer
#[cfg_attr(kani, kani::proof)]
#[cfg_attr(kani, kani::unwind(10))]
#[cfg_attr(kani, kani::stub(std::backtrace::Backtrace::capture, backtrace_disabled))]
pub fn c34_to_integer_excess_precision() {
  let scale: u8 = kani::any();
  let div: u8 = kani::any();
  kani::assume(div < scale);
  let got = forget(Decimal { value: kani::any(), scale }.to_integer(div));
  assert!(got.is_none(), "C34.to_integer.excess_precision_is_error");
}

// ------------------------------------------------------------------------------------------ from_str

static mut PARSED: [Option<u128>; 2] = [None; 2];
static mut PARSED_NEXT: usize = 0;

/// std contract stub: the n-th integer parse returns the n-th harness-chosen component
/// (None = "the text is not a number", an error)
pub fn stub_u128_from_str_radix(_src: &str, _radix: u32) -> Result<u128, core::num::ParseIntError> {
  unsafe {
    let i = PARSED_NEXT;
    PARSED_NEXT += 1;
    match PARSED[i % 2] {
      Some(v) => Ok(v),
      None => "x".parse::<u8>().map(u128::from),
    }
  }
}

fn set_parsed(a: Option<u128>, b: Option<u128>) {
  unsafe {
    PARSED = [a, b];
    PARSED_NEXT = 0;
  }
}

/// the text of shape "<integer>.<fraction of `w` digits>": concrete under Kani (`lit` has that shape),
/// printed from the components natively
fn text(i: u128, d: u128, w: usize, lit: &'static str) -> String {
  #[cfg(kani)]
  {
    let _ = (i, d, w);
    lit.into()
  }
  #[cfg(not(kani))]
  {
    let _ = lit;
    format!("{i}.{d:0>w$}")
  }
}

/// One grammar shape: integer part present, fraction of `w` digits of which the last `tz` are zeros
/// (and the digit before them is not).  For every integer part and every such fraction:
///   Ok(Decimal { value, scale }) only if scale = w - tz and value = integer * 10^scale + fraction / 10^tz
///   without overflow; whenever that does not fit in 128 bits the string is rejected - never a
///   panic, never a wrapped value.
fn from_str_shape(w: usize, tz: usize, lit: &'static str) {
  let i: u128 = kani::any();
  let d: u128 = kani::any();
  // the fraction digits denote d (leading zeros allowed), ending in exactly tz zeros
  if w < 39 {
    kani::assume(d < POW10[w]);
  }
  if tz > 0 {
    kani::assume(tz < 39 && d % POW10[tz] == 0);
  }
  if tz < w {
    kani::assume(tz < 39 && (d / POW10[tz]) % 10 != 0);
  } else {
    kani::assume(d == 0);
  }
  set_parsed(Some(i), Some(d));
  let s = text(i, d, w, lit);
  #[cfg(not(kani))]
  eprintln!("REPLAY-INPUT: Decimal::from_str({s:?})");
  let got = forget(s.parse::<Decimal>());
  let sig = w - tz;
  let frac = if tz < 39 { d / POW10[tz] } else { 0 };
  // the denoted number as (value, scale), when representable
  let expect = if sig < 39 {
    match i.checked_mul(POW10[sig]) {
      Some(x) => x.checked_add(frac),
      None => None,
    }
  } else if i == 0 {
    Some(frac)
  } else {
    None
  };
  match got {
    Some(Decimal { value, scale }) => {
      assert!(scale as usize == sig, "C31.decimal.scale_is_significant_fraction_digits");
      assert!(expect == Some(value), "C31.decimal.accepted_value_is_denoted_value_without_overflow");
    }
    None => {
      assert!(expect.is_none() || sig > 38, "C34.decimal.representable_number_is_accepted");
    }
  }
}

macro_rules! shape_harness {
  ($name:ident, $w:expr, $tz:expr, $lit:expr, $unwind:expr) => {
    #[cfg_attr(kani, kani::proof)]
    #[cfg_attr(kani, kani::unwind($unwind))]
    #[cfg_attr(kani, kani::stub(u128::from_str_radix, stub_u128_from_str_radix))]
    #[cfg_attr(kani, kani::stub(std::backtrace::Backtrace::capture, backtrace_disabled))]
    #[cfg_attr(kani, kani::stub(core::slice::memchr::memchr_aligned, naive_memchr_aligned))]
    #[cfg_attr(kani, kani::stub(core::str::count::do_count_chars, naive_count_chars))]
    pub fn $name() {
      from_str_shape($w, $tz, $lit);
    }
  };
}

//# props: C31, C34
//# kind: complete for this text shape (1 fraction digit, no trailing zero; integer and fraction components range over all u128)
//# fns: decimal::Decimal::from_str
//# assume: std integer parsing is under contract: u128::from_str_radix returns the component the text denotes (stub); the text structure is one concrete string per shape
shape_harness!(c31_decimal_shape_w1_tz0, 1, 0, "7.7", 8);

//# props: C31, C34
//# kind: complete for this text shape (4 fraction digits, 2 trailing zeros)
//# fns: decimal::Decimal::from_str
//# assume: std integer parsing is under contract: u128::from_str_radix returns the component the text denotes (stub)
shape_harness!(c31_decimal_shape_w4_tz2, 4, 2, "7.7700", 12);

//# props: C31, C34
//# tier: thorough
//# kind: complete for this text shape (3 fraction digits, all zeros)
//# fns: decimal::Decimal::from_str
//# assume: std integer parsing is under contract: u128::from_str_radix returns the component the text denotes (stub)
shape_harness!(c31_decimal_shape_w3_tz3, 3, 3, "7.000", 12);

//# props: C31, C34
//# tier: thorough
//# kind: complete for this text shape (38 fraction digits: the largest scale whose power of ten fits u128)
//# fns: decimal::Decimal::from_str
//# assume: std integer parsing is under contract: u128::from_str_radix returns the component the text denotes (stub)
shape_harness!(c31_decimal_shape_w38_tz0, 38, 0, "7.77777777777777777777777777777777777777", 48);

//# props: C31, C34
//# kind: complete for this text shape (39 fraction digits: 10^39 does not fit u128)
//# fns: decimal::Decimal::from_str
//# assume: std integer parsing is under contract: u128::from_str_radix returns the component the text denotes (stub)
shape_harness!(c31_decimal_shape_w39_tz0, 39, 0, "7.777777777777777777777777777777777777777", 48);

//# props: C31, C34
//# tier: thorough
//# kind: complete for this text shape (41 fraction digits, 2 trailing zeros)
//# fns: decimal::Decimal::from_str
//# assume: std integer parsing is under contract: u128::from_str_radix returns the component the text denotes (stub)
shape_harness!(c31_decimal_shape_w41_tz2, 41, 2, "7.77777777777777777777777777777777777777700", 52);

const LIT255: &str = "0.000000000000000000000000000000000000000000000000000000000000000000000000000000000000000000000000000000000000000000000000000000000000000000000000000000000000000000000000000000000000000000000000000000000000000000000000000000000000000000000000000000000000000000001";
const LIT256: &str = "0.0000000000000000000000000000000000000000000000000000000000000000000000000000000000000000000000000000000000000000000000000000000000000000000000000000000000000000000000000000000000000000000000000000000000000000000000000000000000000000000000000000000000000000000001";

//# props: C31, C34
//# tier: thorough
//# kind: complete for this text shape (255 fraction digits: the largest count that fits the u8 scale)
//# fns: decimal::Decimal::from_str
//# assume: std integer parsing is under contract: u128::from_str_radix returns the component the text denotes (stub)
//# timeout: 600
shape_harness!(c31_decimal_shape_w255_tz0, 255, 0, LIT255, 270);

//# props: C31, C34
//# kind: complete for this text shape (256 fraction digits: one more than fits the u8 scale)
//# fns: decimal::Decimal::from_str
//# assume: std integer parsing is under contract: u128::from_str_radix returns the component the text denotes (stub)
//# timeout: 600
shape_harness!(c31_decimal_shape_w256_tz0, 256, 0, LIT256, 270);

/// no '.' at all: the value is the parsed integer, scale 0; non-numbers are errors
//# props: C31, C34
//# kind: complete for this text shape (no decimal point)
//# fns: decimal::Decimal::from_str
//# assume: std integer parsing is under contract: u128::from_str_radix returns the component the text denotes, or an error (stub)
#[cfg_attr(kani, kani::proof)]
#[cfg_attr(kani, kani::unwind(8))]
#[cfg_attr(kani, kani::stub(u128::from_str_radix, stub_u128_from_str_radix))]
#[cfg_attr(kani, kani::stub(std::backtrace::Backtrace::capture, backtrace_disabled))]
pub fn c31_decimal_shape_integer_only() {
  let i: Option<u128> = kani::any();
  set_parsed(i, None);
  #[cfg(kani)]
  let s: String = "7".into();
  #[cfg(not(kani))]
  let s: String = match i {
    Some(v) => format!("{v}"),
    None => "x".into(),
  };
  match forget(s.parse::<Decimal>()) {
    Some(Decimal { value, scale }) => {
      assert!(scale == 0 && Some(value) == i, "C31.decimal.integer_only_value_and_scale_zero");
    }
    None => assert!(i.is_none(), "C34.decimal.integer_is_accepted"),
  }
}

/// "1." and ".5": an empty side counts as zero; "." alone is an error
//# props: C31, C34
//# tier: thorough
//# kind: complete for these text shapes (empty integer part, empty fraction, both empty)
//# fns: decimal::Decimal::from_str
//# assume: std integer parsing is under contract (stub)
#[cfg_attr(kani, kani::proof)]
#[cfg_attr(kani, kani::unwind(8))]
#[cfg_attr(kani, kani::stub(u128::from_str_radix, stub_u128_from_str_radix))]
#[cfg_attr(kani, kani::stub(std::backtrace::Backtrace::capture, backtrace_disabled))]
pub fn c31_decimal_shape_empty_sides() {
  let v: u128 = kani::any();
  // "<v>."
  set_parsed(Some(v), None);
  #[cfg(kani)]
  let s: String = "7.".into();
  #[cfg(not(kani))]
  let s: String = format!("{v}.");
  match forget(s.parse::<Decimal>()) {
    Some(d) => assert!(d.value == v && d.scale == 0, "C31.decimal.empty_fraction_is_integer"),
    None => assert!(false, "C34.decimal.empty_fraction_is_accepted"),
  }
  // ".<digit>"
  let f: u128 = kani::any();
  kani::assume(f >= 1 && f <= 9);
  set_parsed(Some(f), None);
  #[cfg(kani)]
  let s: String = ".7".into();
  #[cfg(not(kani))]
  let s: String = format!(".{f}");
  match forget(s.parse::<Decimal>()) {
    Some(d) => assert!(d.value == f && d.scale == 1, "C31.decimal.empty_integer_is_zero"),
    None => assert!(false, "C34.decimal.empty_integer_is_accepted"),
  }
  set_parsed(None, None);
  let s: String = ".".into();
  assert!(forget(s.parse::<Decimal>()).is_none(), "C31.decimal.lone_point_is_error");
}
