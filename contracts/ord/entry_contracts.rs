// Contracts for src/index/entry.rs (properties C35, C10, C08).
// Compiled as a child module of the real `index::entry` module (tools/overlay_ord.py appends the
// `mod verif_contracts;` line to a byte-for-byte copy of the file), so private items are visible.
#![allow(unused_imports, dead_code)]
use super::*;
#[cfg(not(kani))]
use crate::verif_contracts::kani;

fn any_txid() -> Txid {
  Txid::from_byte_array(kani::any::<[u8; 32]>())
}

fn any_terms() -> Terms {
  Terms {
    amount: kani::any(),
    cap: kani::any(),
    height: (kani::any(), kani::any()),
    offset: (kani::any(), kani::any()),
  }
}

fn any_rune_entry() -> RuneEntry {
  RuneEntry {
    block: kani::any(),
    burned: kani::any(),
    divisibility: kani::any(),
    etching: any_txid(),
    mints: kani::any(),
    number: kani::any(),
    premine: kani::any(),
    spaced_rune: SpacedRune { rune: Rune(kani::any()), spacers: kani::any() },
    symbol: kani::any(),
    terms: if kani::any() { Some(any_terms()) } else { None },
    timestamp: kani::any(),
    turbo: kani::any(),
  }
}

// ------------------------------------------------------------------------------------------ C35

/// SatRange: every range with a 51-bit start and a length below 2^37 (11 bytes = 51 + 37 bits; in
/// particular every range inside the supply that is no longer than a block subsidy, which needs
/// 51 + 33 bits) reads back equal.
//# props: C35
//# kind: complete (all (start, end) with start < 2^51, end - start < 2^37; loop-free)
//# fns: index::entry::SatRange::store, index::entry::SatRange::load
#[cfg_attr(kani, kani::proof)]
#[cfg_attr(kani, kani::unwind(17))]
pub fn c35_sat_range_round_trip() {
  let start: u64 = kani::any();
  let end: u64 = kani::any();
  kani::assume(start <= end);
  kani::assume(start < (1 << 51));
  kani::assume(end - start < (1 << 37));
  let stored = (start, end).store();
  let back = SatRange::load(stored);
  assert!(back == (start, end), "C35.sat_range.load_store_identity");
  kani::cover!(end == Sat::SUPPLY && end - start == 50 * 100_000_000, "whole first-epoch subsidy ending at the supply");
  kani::cover!(start == end, "empty range");
}

/// SatRange is exactly 11 bytes of information: loading any 11 bytes never panics and storing the
/// result gives the same bytes back (so distinct stored values are distinct ranges and vice versa).
//# props: C35, C16
//# kind: complete (all 11-byte values; loop-free)
//# fns: index::entry::SatRange::load, index::entry::SatRange::store
#[cfg_attr(kani, kani::proof)]
#[cfg_attr(kani, kani::unwind(17))]
pub fn c35_sat_range_bytes_round_trip() {
  let bytes: [u8; 11] = kani::any();
  let (start, end) = SatRange::load(bytes);
  assert!(start <= end, "C35.sat_range.loaded_range_is_ordered");
  assert!(start < (1 << 51) && end - start < (1 << 37), "C35.sat_range.loaded_range_in_domain");
  assert!((start, end).store() == bytes, "C35.sat_range.store_load_identity");
}

/// the supply fits the 51-bit start and a subsidy fits the 33-bit length (what the packing relies on)
//# props: C35
//# kind: complete (constants)
//# fns: index::entry::SatRange::store
#[cfg_attr(kani, kani::proof)]
#[cfg_attr(kani, kani::unwind(2))]
pub fn c35_sat_range_domain_covers_supply() {
  assert!(Sat::SUPPLY < (1 << 51), "C35.sat_range.supply_fits_51_bits");
  assert!(50 * 100_000_000u64 < (1 << 33), "C35.sat_range.subsidy_fits_33_bits");
}

/// RuneEntry: every field combination reads back equal.
//# props: C35
//# kind: complete (every field symbolic; loop-free)
//# fns: index::entry::RuneEntry::store, index::entry::RuneEntry::load
#[cfg_attr(kani, kani::proof)]
#[cfg_attr(kani, kani::unwind(34))]
pub fn c35_rune_entry_round_trip() {
  let e = any_rune_entry();
  let back = RuneEntry::load(e.store());
  assert!(back == e, "C35.rune_entry.load_store_identity");
  kani::cover!(e.terms.is_some() && e.symbol.is_some(), "terms and symbol present");
}

/// the etching txid is split into two u128 halves: byte i of the txid is byte i of (low, high)
//# props: C35
//# kind: complete (every txid; loop-free)
//# fns: index::entry::RuneEntry::store
#[cfg_attr(kani, kani::proof)]
#[cfg_attr(kani, kani::unwind(34))]
pub fn c35_rune_entry_txid_halves() {
  let mut e = RuneEntry::default();
  let bytes: [u8; 32] = kani::any();
  e.etching = Txid::from_byte_array(bytes);
  let v = e.store();
  let i: usize = kani::any();
  kani::assume(i < 32);
  let lo = v.3 .0.to_le_bytes();
  let hi = v.3 .1.to_le_bytes();
  assert!(bytes[i] == if i < 16 { lo[i] } else { hi[i - 16] }, "C35.rune_entry.txid_bytes_in_order");
}

/// InscriptionEntry: every field combination reads back equal; the parents list is moved through
/// unchanged (instantiated here with 0..=2 elements: neither direction inspects its contents).
//# props: C35
//# kind: complete (every scalar field symbolic; parents vector of 0..=2 symbolic elements is passed through by move)
//# fns: index::entry::InscriptionEntry::store, index::entry::InscriptionEntry::load
#[cfg_attr(kani, kani::proof)]
#[cfg_attr(kani, kani::unwind(34))]
pub fn c35_inscription_entry_round_trip() {
  let n: u8 = kani::any();
  kani::assume(n <= 2);
  let mut parents = Vec::new();
  if n >= 1 {
    parents.push(kani::any::<u32>());
  }
  if n >= 2 {
    parents.push(kani::any::<u32>());
  }
  let e = InscriptionEntry {
    charms: kani::any(),
    fee: kani::any(),
    height: kani::any(),
    hidden: kani::any(),
    id: InscriptionId { txid: any_txid(), index: kani::any() },
    inscription_number: kani::any(),
    parents,
    sat: if kani::any() { Some(Sat(kani::any())) } else { None },
    sequence_number: kani::any(),
    timestamp: kani::any(),
  };
  let back = InscriptionEntry::load(e.clone().store());
  assert!(back == e, "C35.inscription_entry.load_store_identity");
}

/// InscriptionId (txid, index) <-> (u128, u128, u32)
//# props: C35
//# kind: complete (every txid and index; loop-free)
//# fns: index::entry::InscriptionId::store, index::entry::InscriptionId::load
#[cfg_attr(kani, kani::proof)]
#[cfg_attr(kani, kani::unwind(34))]
pub fn c35_inscription_id_round_trip() {
  let id = InscriptionId { txid: any_txid(), index: kani::any() };
  let v = id.store();
  assert!(InscriptionId::load(v) == id, "C35.inscription_id.load_store_identity");
  assert!(v.2 == id.index, "C35.inscription_id.index_kept");
  let v2: InscriptionIdValue = (kani::any(), kani::any(), kani::any());
  assert!(InscriptionId::load(v2).store() == v2, "C35.inscription_id.store_load_identity");
}

/// RuneId, Rune, Txid
//# props: C35
//# kind: complete (every value; loop-free)
//# fns: index::entry::RuneId::store, index::entry::RuneId::load, index::entry::Rune::store, index::entry::Rune::load, index::entry::Txid::store, index::entry::Txid::load
#[cfg_attr(kani, kani::proof)]
#[cfg_attr(kani, kani::unwind(34))]
pub fn c35_small_entries_round_trip() {
  let id = RuneId { block: kani::any(), tx: kani::any() };
  assert!(RuneId::load(id.store()) == id, "C35.rune_id.load_store_identity");
  assert!(id.store() == (id.block, id.tx), "C35.rune_id.stored_as_block_tx");
  let r = Rune(kani::any());
  assert!(Rune::load(r.store()) == r, "C35.rune.load_store_identity");
  let t: [u8; 32] = kani::any();
  assert!(Txid::load(t).store() == t, "C35.txid.store_load_identity");
  let txid = Txid::from_byte_array(t);
  assert!(Txid::load(txid.store()) == txid, "C35.txid.load_store_identity");
}

/// OutPoint <-> 36 bytes (consensus encoding: txid bytes then little-endian vout)
//# props: C35
//# kind: complete (every outpoint; consensus codec loops bounded by the 36-byte width, unwinding assertion)
//# fns: index::entry::OutPoint::store, index::entry::OutPoint::load
#[cfg_attr(kani, kani::proof)]
#[cfg_attr(kani, kani::unwind(46))]
pub fn c35_outpoint_round_trip() {
  let t: [u8; 32] = kani::any();
  let o = OutPoint { txid: Txid::from_byte_array(t), vout: kani::any() };
  let v = o.store();
  assert!(OutPoint::load(v) == o, "C35.outpoint.load_store_identity");
  let i: usize = kani::any();
  kani::assume(i < 32);
  assert!(v[i] == t[i], "C35.outpoint.txid_bytes_first");
  assert!(v[32..36] == o.vout.to_le_bytes(), "C35.outpoint.vout_little_endian");
}

/// SatPoint <-> 44 bytes
//# props: C35
//# kind: complete (every satpoint; consensus codec loops bounded by the 44-byte width, unwinding assertion)
//# fns: index::entry::SatPoint::store, index::entry::SatPoint::load
#[cfg_attr(kani, kani::proof)]
#[cfg_attr(kani, kani::unwind(46))]
pub fn c35_satpoint_round_trip() {
  let t: [u8; 32] = kani::any();
  let p = SatPoint {
    outpoint: OutPoint { txid: Txid::from_byte_array(t), vout: kani::any() },
    offset: kani::any(),
  };
  let v = p.store();
  assert!(SatPoint::load(v) == p, "C35.satpoint.load_store_identity");
  assert!(v[36..44] == p.offset.to_le_bytes(), "C35.satpoint.offset_little_endian");
  assert!(v[32..36] == p.outpoint.vout.to_le_bytes(), "C35.satpoint.vout_little_endian");
}

/// Header <-> 80 bytes
//# props: C35
//# kind: complete (every header field symbolic; consensus codec loops bounded by the 80-byte width, unwinding assertion)
//# fns: index::entry::Header::store, index::entry::Header::load
#[cfg_attr(kani, kani::proof)]
#[cfg_attr(kani, kani::unwind(82))]
pub fn c35_header_round_trip() {
  use bitcoin::{BlockHash, CompactTarget, TxMerkleNode, block::Version};
  let h = Header {
    version: Version::from_consensus(kani::any()),
    prev_blockhash: BlockHash::from_byte_array(kani::any()),
    merkle_root: TxMerkleNode::from_byte_array(kani::any()),
    time: kani::any(),
    bits: CompactTarget::from_consensus(kani::any()),
    nonce: kani::any(),
  };
  let v = h.store();
  assert!(Header::load(v) == h, "C35.header.load_store_identity");
}

// ------------------------------------------------------------------------------------------ C10

fn spec_start(e: &RuneEntry) -> Option<u64> {
  let t = e.terms?;
  let rel = match t.offset.0 {
    Some(o) => Some(if (e.block as u128) + (o as u128) > u64::MAX as u128 { u64::MAX } else { e.block + o }),
    None => None,
  };
  match (rel, t.height.0) {
    (Some(r), Some(a)) => Some(if r > a { r } else { a }),
    (Some(r), None) => Some(r),
    (None, a) => a,
  }
}

fn spec_end(e: &RuneEntry) -> Option<u64> {
  let t = e.terms?;
  let rel = match t.offset.1 {
    Some(o) => Some(if (e.block as u128) + (o as u128) > u64::MAX as u128 { u64::MAX } else { e.block + o }),
    None => None,
  };
  match (rel, t.height.1) {
    (Some(r), Some(a)) => Some(if r < a { r } else { a }),
    (Some(r), None) => Some(r),
    (None, a) => a,
  }
}

/// start() is the later of the absolute and relative (saturating) start, end() the earlier of the ends
//# props: C10
//# kind: complete (every entry; loop-free)
//# fns: index::entry::RuneEntry::start, index::entry::RuneEntry::end
#[cfg_attr(kani, kani::proof)]
#[cfg_attr(kani, kani::unwind(2))]
pub fn c10_start_end_exact() {
  let e = any_rune_entry();
  assert!(e.start() == spec_start(&e), "C10.start.later_of_absolute_and_relative");
  assert!(e.end() == spec_end(&e), "C10.end.earlier_of_absolute_and_relative");
  kani::cover!(e.terms.is_some() && e.terms.unwrap().offset.0.is_some() && e.terms.unwrap().height.0.is_some(), "both starts");
}

/// mintable(height) is Ok(amount) exactly when the rune has terms, start <= height < end for the
/// bounds that are present and mints < cap (cap absent = 0); each error names the violated bound,
/// in the order unmintable, start, end, cap.
//# props: C10
//# kind: complete (every entry and height; loop-free)
//# fns: index::entry::RuneEntry::mintable
#[cfg_attr(kani, kani::proof)]
#[cfg_attr(kani, kani::unwind(2))]
pub fn c10_mintable_exact() {
  let e = any_rune_entry();
  let h: u64 = kani::any();
  let got = e.mintable(h);
  let started = match spec_start(&e) { Some(s) => h >= s, None => true };
  let not_ended = match spec_end(&e) { Some(x) => h < x, None => true };
  match e.terms {
    None => assert!(got == Err(MintError::Unmintable), "C10.mintable.no_terms_is_unmintable"),
    Some(t) => {
      let cap = match t.cap { Some(c) => c, None => 0 };
      let amount = match t.amount { Some(a) => a, None => 0 };
      let ok = started && not_ended && e.mints < cap;
      assert!(got.is_ok() == ok, "C10.mintable.ok_iff_within_terms");
      if ok {
        assert!(got == Ok(amount), "C10.mintable.amount_is_terms_amount");
      } else if !started {
        assert!(got == Err(MintError::Start(spec_start(&e).unwrap())), "C10.mintable.start_error_names_start");
      } else if !not_ended {
        assert!(got == Err(MintError::End(spec_end(&e).unwrap())), "C10.mintable.end_error_names_end");
      } else {
        assert!(got == Err(MintError::Cap(cap)), "C10.mintable.cap_error_names_cap");
      }
    }
  }
  kani::cover!(got.is_ok(), "mintable");
  kani::cover!(matches!(got, Err(MintError::Cap(_))), "cap reached");
  kani::cover!(matches!(got, Err(MintError::End(_))), "ended");
}

// ------------------------------------------------------------------------------------------ C08

/// supply() = premine + mints * amount without overflow whenever the entry satisfies the index
/// invariant mints <= cap and premine + cap * amount <= u128::MAX (what Etching::supply checks at
/// etching time, C25) - so the conserved quantity of C08 is always representable.
//# props: C08
//# tier: manual
//# kind: bounded(cap and mints below 2^16, premine and amount over all of u128: a symbolic 128x128 multiplication did not finish in 15 min)
//# fns: index::entry::RuneEntry::supply, index::entry::RuneEntry::max_supply
//# timeout: 900
#[cfg_attr(kani, kani::proof)]
#[cfg_attr(kani, kani::unwind(2))]
pub fn c08_supply_representable() {
  let mut e = RuneEntry::default();
  e.premine = kani::any();
  e.mints = kani::any();
  let cap: u128 = kani::any();
  let amount: u128 = kani::any();
  kani::assume(cap < (1 << 16));
  e.terms = Some(Terms { cap: Some(cap), amount: Some(amount), height: (None, None), offset: (None, None) });
  // invariant: the etching's total supply did not overflow, and mints never exceeds the cap (C10)
  let max = match cap.checked_mul(amount) { Some(m) => e.premine.checked_add(m), None => None };
  kani::assume(max.is_some());
  kani::assume(e.mints <= cap);
  let s = e.supply();
  assert!(s <= max.unwrap(), "C08.supply.at_most_max_supply");
  assert!(e.max_supply() == max.unwrap(), "C08.max_supply.is_premine_plus_cap_times_amount");
  assert!(s - e.premine == e.mints * amount, "C08.supply.is_premine_plus_mints_times_amount");
}

/// canary: a deliberately false postcondition; the driver requires it to FAIL.
#[cfg_attr(kani, kani::proof)]
#[cfg_attr(kani, kani::unwind(17))]
pub fn canary_e2_must_fail() {
  let start: u64 = kani::any();
  let end: u64 = kani::any();
  kani::assume(start <= end);
  kani::assume(start < (1 << 51));
  let back = SatRange::load((start, end).store());
  assert!(back == (start, end), "CANARY.sat_range_round_trip_without_length_bound");
}
