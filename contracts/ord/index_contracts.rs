// Contracts for the items of src/index.rs that are extracted verbatim into the E2 shim
// (Index::encode_rune_balance / Index::decode_rune_balance).  Properties C35, C08, C16.
#![allow(unused_imports, dead_code)]
use super::*;
#[cfg(not(kani))]
use crate::verif_contracts::kani;

use crate::verif_contracts::varint_contract as vc;

/// A rune balance written with encode_rune_balance reads back as the same (id, balance), consuming
/// exactly the bytes written, whatever follows in the buffer (so balance lists concatenate).
/// Modular: varint::{encode_to_vec, decode} enter under the contract proved by C26.
//# props: C35, C08
//# kind: complete (every id and balance, arbitrary suffix; loop-free given the varint contracts)
//# fns: index::Index::encode_rune_balance, index::Index::decode_rune_balance
//# assume: ordinals::varint::{encode_to_vec, decode} satisfy the contract proved by the C26 harnesses (contracts/ord/varint_contract.rs restates it as stubs)
#[cfg_attr(kani, kani::proof)]
#[cfg_attr(kani, kani::unwind(10))]
#[cfg_attr(kani, kani::stub(ordinals::varint::encode_to_vec, vc::encode_to_vec))]
#[cfg_attr(kani, kani::stub(ordinals::varint::decode, vc::decode))]
#[cfg_attr(kani, kani::stub(std::backtrace::Backtrace::capture, vc::backtrace_disabled))]
pub fn c35_rune_balance_round_trip() {
  vc::reset();
  let id = RuneId { block: kani::any(), tx: kani::any() };
  let balance: u128 = kani::any();
  let mut buffer = Vec::new();
  Index::encode_rune_balance(id, balance, &mut buffer);
  let written = buffer.len();
  // what was appended: exactly the three fields, in the order block, tx, balance
  #[cfg(kani)]
  {
    assert!(vc::logged() == 3, "C35.rune_balance.three_varints_written");
    assert!(vc::entry(0).2 == u128::from(id.block) && vc::entry(1).2 == u128::from(id.tx) && vc::entry(2).2 == balance,
      "C35.rune_balance.fields_in_order_block_tx_balance");
    assert!(vc::entry(0).0 == 0 && vc::entry(1).0 == vc::entry(0).1 && vc::entry(2).0 == vc::entry(0).1 + vc::entry(1).1
      && written == vc::entry(2).0 + vc::entry(2).1, "C35.rune_balance.varints_are_contiguous");
  }
  buffer.push(kani::any());
  buffer.push(kani::any());
  vc::bind(0, 3, &buffer);
  match Index::decode_rune_balance(&buffer) {
    Ok(((rid, rbal), len)) => {
      assert!(rid == id && rbal == balance, "C35.rune_balance.decode_encode_identity");
      assert!(len == written, "C35.rune_balance.consumes_exactly_what_was_written");
    }
    Err(e) => {
      std::mem::forget(e); // dropping an anyhow::Error (vtable drop glue) does not terminate in CBMC
      assert!(false, "C35.rune_balance.decode_accepts_encoded");
    }
  }
}

/// the frame of encode_rune_balance: an existing prefix of the buffer is left alone (balance lists
/// are built by appending one entry after another)
//# props: C35, C08
//# kind: complete (every id and balance, 2-byte symbolic prefix)
//# fns: index::Index::encode_rune_balance
//# assume: ordinals::varint::encode_to_vec satisfies the contract proved by the C26 harnesses
#[cfg_attr(kani, kani::proof)]
#[cfg_attr(kani, kani::unwind(10))]
#[cfg_attr(kani, kani::stub(ordinals::varint::encode_to_vec, vc::encode_to_vec))]
pub fn c35_rune_balance_encode_frame() {
  vc::reset();
  let p0: u8 = kani::any();
  let p1: u8 = kani::any();
  let mut buffer = Vec::new();
  buffer.push(p0);
  buffer.push(p1);
  Index::encode_rune_balance(RuneId { block: kani::any(), tx: kani::any() }, kani::any(), &mut buffer);
  assert!(buffer[0] == p0 && buffer[1] == p1, "C35.rune_balance.prefix_unchanged");
  assert!(buffer.len() >= 5, "C35.rune_balance.appends_at_least_three_bytes");
}

/// decode_rune_balance is total on arbitrary bytes of ANY length: a value or an error, never a
/// panic; the consumed length is within the buffer (the caller advances by it), the id fields are
/// in range (block: u64, tx: u32 - larger varints are an error, not truncated).
//# props: C35, C16
//# kind: complete (buffers of every length 0..=64 with unconstrained content; the three varints enter under their C26 contract, which bounds each consumed length by 19)
//# fns: index::Index::decode_rune_balance
//# assume: ordinals::varint::decode satisfies the contract proved by the C26 harnesses
#[cfg_attr(kani, kani::proof)]
#[cfg_attr(kani, kani::unwind(10))]
#[cfg_attr(kani, kani::stub(ordinals::varint::decode, vc::decode))]
#[cfg_attr(kani, kani::stub(std::backtrace::Backtrace::capture, vc::backtrace_disabled))]
pub fn c35_rune_balance_decode_total() {
  vc::reset();
  let arr: [u8; 64] = kani::any();
  let n: usize = kani::any();
  kani::assume(n <= 64);
  match Index::decode_rune_balance(&arr[..n]) {
    Ok(((_id, _), len)) => {
      assert!(len <= n && len >= 3, "C35.rune_balance.consumed_length_within_buffer");
    }
    Err(e) => std::mem::forget(e), // see above
  }
}
