// Contracts for the compact-encoding accessors of src/inscriptions/inscription.rs, extracted
// verbatim into the E2 shim (property C27: "pointer, delegate and parent values survive their
// compact byte encodings").
#![allow(unused_imports, dead_code)]
use super::*;
#[cfg(not(kani))]
use crate::verif_contracts::kani;

fn blank() -> Inscription {
  Inscription {
    body: None,
    content_encoding: None,
    content_type: None,
    delegate: None,
    duplicate_field: false,
    incomplete_field: false,
    metadata: None,
    metaprotocol: None,
    parents: Vec::new(),
    pointer: None,
    properties: None,
    property_encoding: None,
    rune: None,
    unrecognized_even_field: false,
  }
}

fn vec_of(a: &[u8]) -> Vec<u8> {
  let mut v = Vec::with_capacity(16);
  let mut i = 0;
  while i < a.len() {
    v.push(a[i]);
    i += 1;
  }
  v
}

/// pointer_value(p) is the little-endian encoding of p without trailing zero bytes and pointer()
/// reads it back, for every u64.
//# props: C27
//# kind: complete (every u64; loops bounded by the 8-byte width, unwinding assertion)
//# fns: inscriptions::inscription::Inscription::pointer_value, inscriptions::inscription::Inscription::pointer
//# timeout: 900
#[cfg_attr(kani, kani::proof)]
#[cfg_attr(kani, kani::unwind(11))]
pub fn c27_pointer_round_trip() {
  let p: u64 = kani::any();
  let v = Inscription::pointer_value(p);
  let want = 8 - (p.leading_zeros() as usize) / 8;
  assert!(v.len() == want, "C27.pointer.value_has_no_trailing_zero_bytes");
  let i: usize = kani::any();
  kani::assume(i < v.len());
  assert!(v[i] == p.to_le_bytes()[i], "C27.pointer.value_is_little_endian");
  let mut ins = blank();
  ins.pointer = Some(v);
  let got = ins.pointer();
  std::mem::forget(ins);
  assert!(got == Some(p), "C27.pointer.pointer_inverts_pointer_value");
}

/// pointer() on arbitrary field bytes: None exactly when a byte past the eighth is non-zero,
/// otherwise the little-endian value of the first eight bytes (missing bytes are zero).
//# props: C27, C16
//# kind: bounded(field of 0..=12 bytes, every byte symbolic; bytes past the eighth are only tested for zero)
//# fns: inscriptions::inscription::Inscription::pointer
//# timeout: 900
#[cfg_attr(kani, kani::proof)]
#[cfg_attr(kani, kani::unwind(15))]
pub fn c27_pointer_exact() {
  let arr: [u8; 12] = kani::any();
  let n: usize = kani::any();
  kani::assume(n <= 12);
  let mut ins = blank();
  ins.pointer = Some(vec_of(&arr[..n]));
  let got = ins.pointer();
  std::mem::forget(ins);
  let mut high = false;
  let mut le = [0u8; 8];
  let mut i = 0;
  while i < n {
    if i < 8 {
      le[i] = arr[i];
    } else if arr[i] != 0 {
      high = true;
    }
    i += 1;
  }
  assert!(got == if high { None } else { Some(u64::from_le_bytes(le)) }, "C27.pointer.exact");
  assert!(blank().pointer().is_none(), "C27.pointer.absent_field_is_none");
}

/// delegate() decodes its field with InscriptionId::from_value (contract:
/// c27_inscription_id_from_value_exact) and nothing else.
//# props: C27
//# kind: bounded(delegate field of 34 symbolic bytes)
//# fns: inscriptions::inscription::Inscription::delegate
//# timeout: 900
#[cfg_attr(kani, kani::proof)]
#[cfg_attr(kani, kani::unwind(40))]
pub fn c27_delegate_is_from_value() {
  let d: [u8; 34] = kani::any();
  let mut ins = blank();
  ins.delegate = Some(d.to_vec());
  let got_d = ins.delegate();
  std::mem::forget(ins);
  assert!(got_d == InscriptionId::from_value(&d), "C27.delegate.is_from_value_of_field");
  assert!(blank().delegate().is_none() && blank().parents().is_empty(), "C27.delegate.absent_field_is_none");
}

/// parents() are the from_value results of the parent fields in order, malformed ones skipped
//# props: C27
//# tier: manual
//# kind: bounded(two parent fields of 33 and 8 symbolic bytes) - NOT RUN by any registered command: CBMC did not finish it in 21 minutes (10 GB and growing; Vec<Vec<u8>> of symbolic buffers)
//# fns: inscriptions::inscription::Inscription::parents
//# timeout: 900
#[cfg_attr(kani, kani::proof)]
#[cfg_attr(kani, kani::unwind(40))]
pub fn c27_parents_are_from_value() {
  let p0: [u8; 33] = kani::any();
  let p1: [u8; 8] = kani::any();
  let mut ins = blank();
  ins.parents.push(p0.to_vec());
  ins.parents.push(p1.to_vec());
  let got_p = ins.parents();
  std::mem::forget(ins);
  let want0 = InscriptionId::from_value(&p0);
  assert!(got_p.len() == if want0.is_some() { 1 } else { 0 }, "C27.parents.malformed_values_are_skipped");
  if let Some(id) = want0 {
    assert!(got_p[0] == id, "C27.parents.are_from_value_of_fields_in_order");
  }
  std::mem::forget(got_p);
}
