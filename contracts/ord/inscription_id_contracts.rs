// Contracts for src/inscriptions/inscription_id.rs (properties C27 - compact byte encoding of
// delegate / parent values - and C31).  Child module of the real `inscription_id` module.
#![allow(unused_imports, dead_code)]
use super::*;
#[cfg(not(kani))]
use crate::verif_contracts::kani;

/// value() is the 32 txid bytes followed by the little-endian index without trailing zero bytes,
/// and from_value() reads it back: every (txid, index) survives the compact encoding.  One harness
/// per index byte-length class (0..=4 bytes), so that every length is concrete; together they cover
/// every u32.
fn value_round_trip(lo: u32, hi: u32, bytes: usize) {
  let t: [u8; 32] = kani::any();
  let index: u32 = kani::any();
  kani::assume(index >= lo && index <= hi);
  let id = InscriptionId { txid: Txid::from_byte_array(t), index };
  let v = id.value();
  assert!(v.len() == 32 + bytes, "C27.inscription_id.value_has_no_trailing_zero_bytes");
  let i: usize = kani::any();
  kani::assume(i < 32 + bytes);
  assert!(v[i] == if i < 32 { t[i] } else { index.to_le_bytes()[i - 32] }, "C27.inscription_id.value_is_txid_then_le_index");
  assert!(InscriptionId::from_value(&v) == Some(id), "C27.inscription_id.from_value_inverts_value");
}

macro_rules! value_harness {
  ($name:ident, $lo:expr, $hi:expr, $bytes:expr) => {
    #[cfg_attr(kani, kani::proof)]
    #[cfg_attr(kani, kani::unwind(38))]
    pub fn $name() {
      value_round_trip($lo, $hi, $bytes);
    }
  };
}

//# props: C27
//# kind: complete (every txid; index 0 - the five c27_inscription_id_value_b* harnesses together cover every u32 index)
//# fns: inscriptions::inscription_id::InscriptionId::value, inscriptions::inscription_id::InscriptionId::from_value
//# timeout: 900
value_harness!(c27_inscription_id_value_b0, 0, 0, 0);

//# props: C27
//# kind: complete (every txid; every index 1..=0xff)
//# fns: inscriptions::inscription_id::InscriptionId::value, inscriptions::inscription_id::InscriptionId::from_value
//# timeout: 900
value_harness!(c27_inscription_id_value_b1, 1, 0xff, 1);

//# props: C27
//# kind: complete (every txid; every index 0x100..=0xffff)
//# fns: inscriptions::inscription_id::InscriptionId::value, inscriptions::inscription_id::InscriptionId::from_value
//# timeout: 900
value_harness!(c27_inscription_id_value_b2, 0x100, 0xffff, 2);

//# props: C27
//# kind: complete (every txid; every index 0x10000..=0xffffff)
//# fns: inscriptions::inscription_id::InscriptionId::value, inscriptions::inscription_id::InscriptionId::from_value
//# timeout: 900
value_harness!(c27_inscription_id_value_b3, 0x1_0000, 0xff_ffff, 3);

//# props: C27
//# kind: complete (every txid; every index 0x1000000..=u32::MAX)
//# fns: inscriptions::inscription_id::InscriptionId::value, inscriptions::inscription_id::InscriptionId::from_value
//# timeout: 900
value_harness!(c27_inscription_id_value_b4, 0x100_0000, u32::MAX, 4);

/// from_value() on arbitrary bytes: accepts exactly lengths 32..=36 whose index part is either the
/// full 4 bytes or has no trailing zero byte, and then returns (first 32 bytes, little-endian rest);
/// everything else is None.  Never panics.
//# props: C27, C16
//# kind: complete (every byte string of length 0..=40; longer strings are rejected by the same length test)
//# fns: inscriptions::inscription_id::InscriptionId::from_value
//# timeout: 900
#[cfg_attr(kani, kani::proof)]
#[cfg_attr(kani, kani::unwind(42))]
pub fn c27_inscription_id_from_value_exact() {
  let arr: [u8; 40] = kani::any();
  let n: usize = kani::any();
  kani::assume(n <= 40);
  let v = &arr[..n];
  let got = InscriptionId::from_value(v);
  let canonical = n >= 32 && n <= 36 && (n == 32 || n == 36 || arr[n - 1] != 0);
  assert!(got.is_some() == canonical, "C27.inscription_id.accepts_exactly_canonical_lengths");
  if let Some(id) = got {
    let mut idx = [0u8; 4];
    let mut k = 32;
    while k < n {
      idx[k - 32] = arr[k];
      k += 1;
    }
    assert!(id.index == u32::from_le_bytes(idx), "C27.inscription_id.index_is_le_of_tail");
    let i: usize = kani::any();
    kani::assume(i < 32);
    assert!(id.txid.to_byte_array()[i] == arr[i], "C27.inscription_id.txid_is_first_32_bytes");
  }
  kani::cover!(got.is_some() && n == 34, "two index bytes");
  kani::cover!(got.is_none() && n == 35, "trailing zero rejected");
}

/// text of length `len`: hex digit 'a' everywhere, 'i' at position 64 (if any), digit '1' after it
fn id_text(len: usize) -> String {
  let mut s = String::with_capacity(len + 1);
  let mut i = 0;
  while i < len {
    s.push(if i < 64 { 'a' } else if i == 64 { 'i' } else { '1' });
    i += 1;
  }
  s
}

static mut TXID_PARSED: Option<[u8; 32]> = None;

/// contract stub for `<Txid as FromStr>::from_str` (bitcoin / hex-conservative: not under contract
/// here): any 64 hex digits denote some txid - the harness chooses which - or an error
fn stub_txid_from_str(_s: &str) -> Result<Txid, bitcoin::hex::HexToArrayError> {
  match unsafe { TXID_PARSED } {
    Some(b) => Ok(Txid::from_byte_array(b)),
    None => <[u8; 1] as bitcoin::hex::FromHex>::from_hex("zz").map(|_| Txid::all_zeros()),
  }
}

fn from_str_len(len: usize) {
  let s = id_text(len);
  // lengths below 66 never reach the txid parser; from 66 on it answers with a harness-chosen txid
  // (the error answer is explored only for the short lengths, where it is cheap)
  let parsed: Option<[u8; 32]> = if len >= 66 || kani::any() { Some(kani::any()) } else { None };
  // natively (replay) the real hex parser runs: the text denotes the txid aa..aa
  #[cfg(not(kani))]
  let parsed: Option<[u8; 32]> = {
    let _ = parsed;
    Some([0xaa; 32])
  };
  unsafe { TXID_PARSED = parsed };
  #[cfg(not(kani))]
  eprintln!("REPLAY-INPUT: InscriptionId::from_str({s:?})");
  match s.parse::<InscriptionId>() {
    Ok(id) => {
      assert!(len >= 66, "C31.inscription_id.too_short_text_is_rejected");
      assert!(Some(id.txid.to_byte_array()) == parsed, "C31.inscription_id.txid_is_the_parsed_64_hex_digits");
      assert!(id.index == if len == 66 { 1 } else { 11 }, "C31.inscription_id.index_is_the_decimal_after_i");
    }
    Err(e) => {
      if len < 66 {
        assert!(matches!(e, ParseError::Length(l) if l == len), "C31.inscription_id.short_text_reports_its_length");
      } else {
        assert!(parsed.is_none() && matches!(e, ParseError::Txid(_)), "C27.inscription_id.well_formed_text_is_accepted");
      }
    }
  }
}

macro_rules! from_str_len_harness {
  ($name:ident, $len:expr) => {
    #[cfg_attr(kani, kani::proof)]
    #[cfg_attr(kani, kani::unwind(70))]
    #[cfg_attr(kani, kani::stub(<Txid as core::str::FromStr>::from_str, stub_txid_from_str))]
    pub fn $name() {
      from_str_len($len);
    }
  };
}

// InscriptionId::from_str slices the text at fixed positions (64, 65): the parser must be total at
// every length around those positions (structure-dependent quantity; concrete text per length).
//# props: C31
//# kind: bounded(one concrete ASCII string of length 0)
//# fns: inscriptions::inscription_id::InscriptionId::from_str
//# assume: <Txid as FromStr>::from_str (bitcoin crate hex parser) returns some txid or an error for the 64 hex digits (stub)
//# timeout: 900
from_str_len_harness!(c31_inscription_id_from_str_len_0, 0);

//# props: C31
//# kind: bounded(one concrete ASCII string of length 63)
//# fns: inscriptions::inscription_id::InscriptionId::from_str
//# assume: <Txid as FromStr>::from_str (bitcoin crate hex parser) returns some txid or an error for the 64 hex digits (stub)
//# timeout: 900
from_str_len_harness!(c31_inscription_id_from_str_len_63, 63);

//# props: C31
//# kind: bounded(one concrete ASCII string of length 64: a bare txid)
//# fns: inscriptions::inscription_id::InscriptionId::from_str
//# assume: <Txid as FromStr>::from_str (bitcoin crate hex parser) returns some txid or an error for the 64 hex digits (stub)
//# timeout: 900
from_str_len_harness!(c31_inscription_id_from_str_len_64, 64);

//# props: C31
//# kind: bounded(one concrete ASCII string of length 65: txid + separator, no index)
//# fns: inscriptions::inscription_id::InscriptionId::from_str
//# assume: <Txid as FromStr>::from_str (bitcoin crate hex parser) returns some txid or an error for the 64 hex digits (stub)
//# timeout: 900
from_str_len_harness!(c31_inscription_id_from_str_len_65, 65);

//# props: C31
//# tier: thorough
//# kind: bounded(one concrete ASCII string of length 66: shortest well-formed id)
//# fns: inscriptions::inscription_id::InscriptionId::from_str
//# assume: <Txid as FromStr>::from_str (bitcoin crate hex parser) returns some txid or an error for the 64 hex digits (stub)
//# timeout: 900
from_str_len_harness!(c31_inscription_id_from_str_len_66, 66);

//# props: C31
//# tier: thorough
//# kind: bounded(one concrete ASCII string of length 67)
//# fns: inscriptions::inscription_id::InscriptionId::from_str
//# assume: <Txid as FromStr>::from_str (bitcoin crate hex parser) returns some txid or an error for the 64 hex digits (stub)
//# timeout: 900
from_str_len_harness!(c31_inscription_id_from_str_len_67, 67);
