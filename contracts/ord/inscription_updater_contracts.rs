// Contract for InscriptionUpdater::calculate_sat (src/index/updater/inscription_updater.rs), extracted
// verbatim: the sat a newly revealed inscription is bound to.  Property C03 (partial).
#![allow(unused_imports, dead_code)]
use super::*;
#[cfg(not(kani))]
use crate::verif_contracts::kani;
use crate::index::entry::{Entry, SatRange};

/// the k-th sat (0-based) of the concatenation of half-open ranges, by definition
fn sat_at(ranges: &[(u64, u64)], mut k: u64) -> Option<u64> {
  let mut i = 0;
  while i < ranges.len() {
    let size = ranges[i].1 - ranges[i].0;
    if k < size {
      return Some(ranges[i].0 + k);
    }
    k -= size;
    i += 1;
  }
  None
}

/// calculate_sat(inputs, offset) is the offset-th sat of the transaction's input ranges taken in
/// input order (first-in-first-out position): the same sat the sat index moves to output position
/// `offset`.  No sat ranges (sat index off) => None.  Shape: `n0` ranges in the first input, `n1` in
/// the second; every range and the offset symbolic.
fn calc(n0: usize, n1: usize) {
  let r: [(u64, u64); 4] = kani::any();
  let mut bytes0 = [0u8; 22];
  let mut bytes1 = [0u8; 22];
  let mut list = [(0u64, 0u64); 4];
  let mut total: u64 = 0;
  let mut i = 0;
  while i < n0 + n1 {
    let (a, b) = r[i];
    // stored ranges: non-empty, inside the SatRange domain, total value fits u64 (a transaction's input value)
    kani::assume(a < b && a < (1 << 51) && b - a < (1 << 37));
    let enc = (a, b).store();
    if i < n0 {
      bytes0[i * 11..i * 11 + 11].copy_from_slice(&enc);
    } else {
      bytes1[(i - n0) * 11..(i - n0) * 11 + 11].copy_from_slice(&enc);
    }
    list[i] = (a, b);
    total += b - a;
    i += 1;
  }
  let offset: u64 = kani::any();
  kani::assume(offset < total);
  let mut inputs: Vec<&[u8]> = Vec::with_capacity(2);
  inputs.push(&bytes0[..n0 * 11]);
  inputs.push(&bytes1[..n1 * 11]);
  let got = InscriptionUpdater::calculate_sat(Some(&inputs), offset);
  assert!(got == sat_at(&list[..n0 + n1], offset).map(Sat), "C03.calculate_sat.is_the_offset_th_sat_of_the_inputs_in_order");
  assert!(InscriptionUpdater::calculate_sat(None, offset).is_none(), "C03.calculate_sat.no_sat_without_sat_index");
  std::mem::forget(inputs);
}

macro_rules! calc_harness {
  ($name:ident, $n0:expr, $n1:expr) => {
    #[cfg_attr(kani, kani::proof)]
    #[cfg_attr(kani, kani::unwind(6))]
    pub fn $name() {
      calc($n0, $n1);
    }
  };
}

//# props: C03
//# kind: bounded(shape: two inputs with 2 and 1 sat ranges; every range and the offset symbolic)
//# fns: index::updater::inscription_updater::InscriptionUpdater::calculate_sat
calc_harness!(c03_calculate_sat_2_1, 2, 1);

//# props: C03
//# kind: bounded(shape: an input without ranges followed by an input with 2 ranges)
//# fns: index::updater::inscription_updater::InscriptionUpdater::calculate_sat
calc_harness!(c03_calculate_sat_0_2, 0, 2);

//# props: C03
//# kind: bounded(shape: two inputs with 1 and 2 sat ranges)
//# fns: index::updater::inscription_updater::InscriptionUpdater::calculate_sat
calc_harness!(c03_calculate_sat_1_2, 1, 2);
