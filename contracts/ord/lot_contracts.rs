// Contracts for src/index/lot.rs (property C08: rune amounts are never created or destroyed by
// arithmetic - every Lot operation is exact or panics, never wraps).  Child module of `index::lot`.
#![allow(unused_imports, dead_code)]
use super::*;
#[cfg(not(kani))]
use crate::verif_contracts::kani;

/// Lot addition / subtraction are exact on the non-overflowing domain (the complement panics with
/// "lot overflow" / "lot underflow": the indexer's supply invariant, C08, keeps it unreachable).
//# props: C08
//# kind: complete (every pair of u128; loop-free)
//# fns: index::lot::Lot::add, index::lot::Lot::sub, index::lot::Lot::add_assign, index::lot::Lot::sub_assign, index::lot::Lot::checked_add, index::lot::Lot::checked_sub
#[cfg_attr(kani, kani::proof)]
#[cfg_attr(kani, kani::unwind(2))]
pub fn c08_lot_add_sub_exact() {
  let a: u128 = kani::any();
  let b: u128 = kani::any();
  assert!(Lot(a).checked_add(Lot(b)) == a.checked_add(b).map(Lot), "C08.lot.checked_add_is_u128_checked_add");
  assert!(Lot(a).checked_sub(Lot(b)) == a.checked_sub(b).map(Lot), "C08.lot.checked_sub_is_u128_checked_sub");
  if let Some(s) = a.checked_add(b) {
    assert!((Lot(a) + Lot(b)).n() == s && (Lot(a) + b).n() == s, "C08.lot.add_exact");
    let mut x = Lot(a);
    x += Lot(b);
    let mut y = Lot(a);
    y += b;
    assert!(x.n() == s && y.n() == s, "C08.lot.add_assign_exact");
    assert!((Lot(s) - Lot(b)).n() == a, "C08.lot.sub_inverts_add");
  }
  if a >= b {
    let mut x = Lot(a);
    x -= Lot(b);
    assert!((Lot(a) - Lot(b)).n() == a - b && x.n() == a - b, "C08.lot.sub_exact");
  }
}

/// the even split of an all-outputs edict: q = amount / k, r = amount % k, and k*q + r = amount
/// (what `allocate` hands out: r outputs get q+1, the rest q) - nothing lost to rounding.
/// Symbolic 128-bit division does not terminate in CBMC; the divisor is fixed to 3
/// eligible outputs (one 128-bit divider circuit; more do not fit the quick tier), the amount ranges over all u128.
//# props: C08, C09
//# kind: bounded(every amount; 3 eligible outputs)
//# fns: index::lot::Lot::div, index::lot::Lot::rem
//# timeout: 900
#[cfg_attr(kani, kani::proof)]
#[cfg_attr(kani, kani::unwind(2))]
pub fn c08_lot_div_rem_partition() {
  let a: u128 = kani::any();
  macro_rules! split { ($($k:literal)*) => { $( {
    let q = (Lot(a) / $k).n();
    let r = (Lot(a) % $k).n();
    assert!(r < $k, "C08.lot.remainder_below_divisor");
    assert!(q == a / $k && r == a % $k, "C08.lot.div_rem_are_u128_div_rem");
    assert!(q.checked_mul($k).and_then(|x| x.checked_add(r)) == Some(a), "C08.lot.split_loses_nothing");
  } )* } }
  split!(3);
  assert!(Lot(a) == a && !(Lot(a) < a) && !(Lot(a) > a), "C08.lot.compares_as_u128");
}
