// Contracts for the kernel functions of src/index/updater/rune_updater.rs that are extracted
// verbatim into the E2 shim (contracts/ord/shim/updater.rs): RuneUpdater::{mint, etched,
// create_rune_entry, update}.  Properties C10 (mint step), C11 (etching rules, entry creation),
// C08 (burn accounting), C37 (RuneEtched event).  Tables, the event channel and HashMap are the
// environment shims of contracts/ord/shim/env.rs (assumed contracts: finite maps, ordered delivery).
#![allow(unused_imports, dead_code, static_mut_refs)]
use super::*;
#[cfg(not(kani))]
use crate::verif_contracts::kani;
use crate::index::entry::Entry;
use ordinals::{Cenotaph, Flaw};

fn any_txid() -> Txid {
  Txid::from_byte_array(kani::any::<[u8; 32]>())
}

fn any_terms() -> Terms {
  Terms { amount: kani::any(), cap: kani::any(), height: (kani::any(), kani::any()), offset: (kani::any(), kani::any()) }
}

fn any_rune_entry() -> RuneEntry {
  RuneEntry {
    block: kani::any(),
    burned: kani::any(),
    divisibility: kani::any(),
    etching: any_txid(),
    mints: kani::any(),
    number: kani::any(),
    premine: kani::any(),
    spaced_rune: SpacedRune { rune: Rune(kani::any()), spacers: kani::any() },
    symbol: kani::any(),
    terms: if kani::any() { Some(any_terms()) } else { None },
    timestamp: kani::any(),
    turbo: kani::any(),
  }
}

fn empty_tx() -> Transaction {
  Transaction {
    version: bitcoin::transaction::Version(2),
    lock_time: bitcoin::absolute::LockTime::ZERO,
    input: Vec::new(),
    output: Vec::new(),
  }
}

/// all the tables a RuneUpdater borrows, owned by the harness
struct World<'tx> {
  id_to_entry: Table<'tx, RuneIdValue, RuneEntryValue>,
  inscription_id_to_sequence_number: Table<'tx, InscriptionIdValue, u32>,
  outpoint_to_balances: Table<'tx, &'static OutPointValue, &'static [u8]>,
  rune_to_id: Table<'tx, u128, RuneIdValue>,
  sequence_number_to_rune_id: Table<'tx, u32, RuneIdValue>,
  statistic_to_count: Table<'tx, u64, u64>,
  transaction_id_to_rune: Table<'tx, &'static TxidValue, u128>,
  client: Client,
  sender: mpsc::Sender<Event>,
}

impl<'tx> World<'tx> {
  fn new() -> Self {
    Self {
      id_to_entry: Table::new(),
      inscription_id_to_sequence_number: Table::new(),
      outpoint_to_balances: Table::new(),
      rune_to_id: Table::new(),
      sequence_number_to_rune_id: Table::new(),
      statistic_to_count: Table::new(),
      transaction_id_to_rune: Table::new(),
      client: Client,
      sender: mpsc::Sender::new(),
    }
  }

  fn updater<'a>(&'a mut self, height: u32, minimum: Rune, runes: u64, block_time: u32, events: bool) -> RuneUpdater<'a, 'tx, 'a> {
    RuneUpdater {
      block_time,
      burned: HashMap::new(),
      client: &self.client,
      event_sender: if events { Some(&self.sender) } else { None },
      height,
      id_to_entry: &mut self.id_to_entry,
      inscription_id_to_sequence_number: &self.inscription_id_to_sequence_number,
      minimum,
      outpoint_to_balances: &mut self.outpoint_to_balances,
      rune_to_id: &mut self.rune_to_id,
      runes,
      sequence_number_to_rune_id: &mut self.sequence_number_to_rune_id,
      statistic_to_count: &mut self.statistic_to_count,
      transaction_id_to_rune: &mut self.transaction_id_to_rune,
    }
  }
}

fn forget<T>(r: Result<T>) -> Option<T> {
  match r {
    Ok(v) => Some(v),
    Err(e) => {
      std::mem::forget(e);
      None
    }
  }
}

// ------------------------------------------------------------------------------------------ C10

/// mint(id): a rune that is not in the table (not yet etched, or etched later in the block) has no
/// effect; a rune whose terms do not allow a mint at this height has no effect; otherwise the
/// stored mint count grows by exactly one, nothing else in the entry changes, and the amount
/// returned is the terms' amount.  With RuneEntry::mintable's contract (mints < cap required,
/// c10_mintable_exact) the count can never pass the cap.
//# props: C10
//# kind: complete (every rune entry, rune id, queried id and height; the table holds zero or one entry - other keys are untouched by the finite-map contract of the table)
//# fns: index::updater::rune_updater::RuneUpdater::mint
//# assume: redb::Table behaves as a finite map (shim contracts/ord/shim/env.rs)
//# timeout: 900
#[cfg_attr(kani, kani::proof)]
#[cfg_attr(kani, kani::unwind(4))]
pub fn c10_mint_step() {
  let mut w = World::new();
  let k0 = RuneId { block: kani::any(), tx: kani::any() };
  let e0 = any_rune_entry();
  let present: bool = kani::any();
  if present {
    w.id_to_entry.entries.push((k0.store(), e0.store()));
  }
  let id = RuneId { block: kani::any(), tx: kani::any() };
  let height: u32 = kani::any();
  let mut u = w.updater(height, Rune(0), 0, 0, false);
  let got = forget(u.mint(id));
  std::mem::forget(u);
  assert!(got.is_some(), "C16.mint.never_errors");
  let got = got.unwrap();
  let hit = present && id == k0;
  let verdict = e0.mintable(u64::from(height));
  match got {
    Some(lot) => {
      assert!(hit, "C10.mint.unknown_rune_has_no_effect");
      assert!(verdict == Ok(lot.n()), "C10.mint.only_when_terms_allow_and_amount_is_terms_amount");
      assert!(w.id_to_entry.inserts == 1 && w.id_to_entry.entries.len() == 1, "C10.mint.writes_exactly_one_entry");
      let after = RuneEntry::load(w.id_to_entry.entries[0].1);
      assert!(w.id_to_entry.entries[0].0 == k0.store(), "C10.mint.writes_the_minted_rune");
      assert!(after.mints == e0.mints + 1, "C10.mint.count_grows_by_exactly_one");
      let mut expect = e0;
      expect.mints = after.mints;
      assert!(after == expect, "C10.mint.nothing_else_in_the_entry_changes");
      if let Some(t) = e0.terms {
        assert!(after.mints <= t.cap.unwrap_or_default(), "C10.mint.count_never_exceeds_cap");
      }
    }
    None => {
      assert!(!hit || verdict.is_err(), "C10.mint.allowed_mint_is_performed");
      assert!(w.id_to_entry.inserts == 0, "C10.mint.refused_mint_writes_nothing");
    }
  }
  kani::cover!(matches!(got, Some(_)), "a mint happened");
  kani::cover!(hit && got.is_none(), "known rune, mint refused");
}

// ------------------------------------------------------------------------------------------ C11

fn any_artifact() -> Artifact {
  let named: Option<Rune> = if kani::any() { Some(Rune(kani::any())) } else { None };
  if kani::any() {
    let etching = if kani::any() {
      Some(Etching {
        divisibility: kani::any(),
        premine: kani::any(),
        rune: named,
        spacers: kani::any(),
        symbol: kani::any(),
        terms: if kani::any() { Some(any_terms()) } else { None },
        turbo: kani::any(),
      })
    } else {
      None
    };
    Artifact::Runestone(Runestone { edicts: Vec::new(), etching, mint: None, pointer: None })
  } else {
    Artifact::Cenotaph(Cenotaph { etching: named, flaw: Some(Flaw::Varint), mint: None })
  }
}

/// etched(): a rune is created only by an artifact that carries an etching; a NAMED etching succeeds
/// exactly when the name is at or above the block's minimum, not reserved, not taken, and the
/// transaction commits to it (commitment check under its assumed contract: both answers explored);
/// an UNNAMED etching in a runestone gets Rune::reserved(height, tx index) and bumps the reserved
/// counter by one; an unnamed etching in a cenotaph creates nothing (a cenotaph keeps only an etched
/// NAME).  The id is (height, tx index).
//# props: C11
//# kind: complete (every artifact shape and field value, minimum, height, tx index, every state of the name table with zero or one entry and of the reserved counter)
//# fns: index::updater::rune_updater::RuneUpdater::etched
//# assume: redb::Table behaves as a finite map; tx_commits_to_rune (RPC + tapscript scan, not under contract) returns a harness-chosen boolean
//# timeout: 900
#[cfg_attr(kani, kani::proof)]
#[cfg_attr(kani, kani::unwind(4))]
pub fn c11_etched_exact() {
  let mut w = World::new();
  let taken = Rune(kani::any());
  let has_taken: bool = kani::any();
  if has_taken {
    w.rune_to_id.entries.push((taken.0, (kani::any(), kani::any())));
  }
  let reserved_before: Option<u64> = kani::any();
  if let Some(r) = reserved_before {
    kani::assume(r < u64::MAX);
    w.statistic_to_count.entries.push((Statistic::ReservedRunes.into(), r));
  }
  let commits: bool = kani::any();
  unsafe { TX_COMMITS = commits };
  let minimum = Rune(kani::any());
  let height: u32 = kani::any();
  let tx_index: u32 = kani::any();
  let artifact = any_artifact();
  let tx = empty_tx();
  let mut u = w.updater(height, minimum, 0, 0, false);
  let got = forget(u.etched(tx_index, &tx, &artifact));
  std::mem::forget(u);
  assert!(got.is_some(), "C16.etched.never_errors");
  let got = got.unwrap();
  // what the artifact asks for
  let (has_etching, name, is_cenotaph) = match &artifact {
    Artifact::Runestone(r) => (r.etching.is_some(), r.etching.and_then(|e| e.rune), false),
    Artifact::Cenotaph(c) => (c.etching.is_some(), c.etching, true),
  };
  let reserved_after = w.statistic_to_count.peek(&Statistic::ReservedRunes.into()).copied();
  match got {
    Some((id, rune)) => {
      assert!(has_etching, "C11.etched.only_artifacts_with_an_etching_create_runes");
      assert!(id == RuneId { block: u64::from(height), tx: tx_index }, "C11.etched.id_is_block_and_tx_index");
      match name {
        Some(n) => {
          assert!(rune == n, "C11.etched.named_etching_keeps_its_name");
          assert!(n >= minimum, "C11.etched.name_at_or_above_minimum");
          assert!(!n.is_reserved(), "C11.etched.name_not_reserved");
          assert!(!(has_taken && taken == n), "C11.etched.name_not_taken");
          assert!(commits, "C11.etched.transaction_commits_to_name");
          assert!(reserved_after == reserved_before, "C11.etched.named_etching_leaves_reserved_counter");
        }
        None => {
          assert!(!is_cenotaph, "C11.etched.unnamed_etching_in_cenotaph_creates_nothing");
          assert!(rune == Rune::reserved(u64::from(height), tx_index), "C11.etched.unnamed_etching_gets_reserved_name");
          assert!(reserved_after == Some(reserved_before.unwrap_or(0) + 1), "C11.etched.reserved_counter_grows_by_one");
        }
      }
    }
    None => {
      let named_ok = match name {
        Some(n) => n >= minimum && !n.is_reserved() && !(has_taken && taken == n) && commits,
        None => false,
      };
      let unnamed_ok = has_etching && name.is_none() && !is_cenotaph;
      assert!(!named_ok && !unnamed_ok, "C11.etched.valid_etching_creates_a_rune");
      assert!(reserved_after == reserved_before, "C11.etched.refused_etching_leaves_reserved_counter");
    }
  }
  assert!(w.rune_to_id.inserts == 0, "C11.etched.does_not_touch_the_name_table");
  std::mem::forget(artifact);
  std::mem::forget(tx);
  kani::cover!(matches!(got, Some(_)) && name.is_some(), "named etching accepted");
  kani::cover!(matches!(got, Some(_)) && name.is_none(), "reserved name assigned");
}

/// create_rune_entry(): the new rune's number is the old rune count, the count grows by one and is
/// written to the Runes statistic; name -> id, txid -> name and id -> entry receive the same
/// (name, id); the entry carries the etching's fields (a cenotaph's entry has no terms, premine 0,
/// divisibility 0, no symbol, spacers 0); one RuneEtched event is sent when a receiver is attached;
/// the inscription-to-rune link is written iff the reveal transaction's first inscription is known.
//# props: C11, C37
//# kind: complete (every artifact with an etching, id, name, txid, counters; empty name/id tables - other keys are untouched by the finite-map contract)
//# fns: index::updater::rune_updater::RuneUpdater::create_rune_entry
//# assume: redb::Table behaves as a finite map; mpsc::Sender delivers in order
//# timeout: 900
#[cfg_attr(kani, kani::proof)]
#[cfg_attr(kani, kani::unwind(4))]
pub fn c11_create_rune_entry_exact() {
  let mut w = World::new();
  let txid = any_txid();
  let seq: Option<u32> = kani::any();
  if let Some(s) = seq {
    w.inscription_id_to_sequence_number.entries.push((InscriptionId { txid, index: 0 }.store(), s));
  }
  let artifact = any_artifact();
  let etching = match &artifact {
    Artifact::Runestone(r) => {
      kani::assume(r.etching.is_some());
      r.etching
    }
    Artifact::Cenotaph(_) => None,
  };
  let id = RuneId { block: kani::any(), tx: kani::any() };
  let rune = Rune(kani::any());
  let runes: u64 = kani::any();
  kani::assume(runes < u64::MAX);
  let block_time: u32 = kani::any();
  let height: u32 = kani::any();
  let events: bool = kani::any();
  let mut u = w.updater(height, Rune(0), runes, block_time, events);
  let ok = forget(u.create_rune_entry(txid, &artifact, id, rune)).is_some();
  let runes_after = u.runes;
  std::mem::forget(u);
  assert!(ok, "C16.create_rune_entry.never_errors");
  assert!(runes_after == runes + 1, "C11.create.rune_count_grows_by_one");
  assert!(w.statistic_to_count.peek(&Statistic::Runes.into()) == Some(&(runes + 1)), "C11.create.runes_statistic_is_new_count");
  assert!(w.rune_to_id.entries.len() == 1 && w.rune_to_id.entries[0] == (rune.0, id.store()), "C11.create.name_maps_to_id");
  assert!(w.transaction_id_to_rune.entries.len() == 1 && w.transaction_id_to_rune.entries[0] == (txid.store(), rune.0), "C11.create.txid_maps_to_name");
  assert!(w.id_to_entry.entries.len() == 1 && w.id_to_entry.entries[0].0 == id.store(), "C11.create.id_maps_to_entry");
  let e = RuneEntry::load(w.id_to_entry.entries[0].1);
  assert!(e.number == runes, "C11.create.number_is_old_count");
  assert!(e.block == id.block && e.etching == txid && e.spaced_rune.rune == rune, "C11.create.entry_names_block_txid_rune");
  assert!(e.mints == 0 && e.burned == 0 && e.timestamp == u64::from(block_time), "C11.create.entry_starts_with_no_mints_or_burns");
  match etching {
    None => assert!(
      e.terms.is_none() && e.premine == 0 && e.divisibility == 0 && e.symbol.is_none() && e.spaced_rune.spacers == 0 && !e.turbo,
      "C11.create.cenotaph_entry_has_no_terms_and_no_premine"
    ),
    Some(t) => assert!(
      e.terms == t.terms
        && e.premine == t.premine.unwrap_or_default()
        && e.divisibility == t.divisibility.unwrap_or_default()
        && e.symbol == t.symbol
        && e.spaced_rune.spacers == t.spacers.unwrap_or_default()
        && e.turbo == t.turbo,
      "C11.create.entry_carries_the_etching_fields"
    ),
  }
  {
    let sent = w.sender.sent.borrow();
    if events {
      assert!(sent.len() == 1 && sent[0] == Event::RuneEtched { block_height: height, txid, rune_id: id }, "C37.create.one_rune_etched_event");
    } else {
      assert!(sent.is_empty(), "C37.create.no_event_without_receiver");
    }
  }
  match seq {
    Some(s) => assert!(w.sequence_number_to_rune_id.entries.len() == 1 && w.sequence_number_to_rune_id.entries[0] == (s, id.store()), "C11.create.inscription_linked_to_rune"),
    None => assert!(w.sequence_number_to_rune_id.entries.is_empty(), "C11.create.no_link_without_inscription"),
  }
  std::mem::forget(artifact);
  std::mem::forget(w);
}

// ------------------------------------------------------------------------------------------ C08

/// update(): every rune's accumulated burn of the block is added to its entry's `burned`, nothing
/// else in the entry changes, no other entry is written.
//# props: C08
//# kind: bounded(one or two runes burned in the block; every entry field and amount symbolic, within the supply invariant burned + amount <= u128::MAX)
//# fns: index::updater::rune_updater::RuneUpdater::update
//# assume: redb::Table and HashMap behave as finite maps (shims)
//# timeout: 900
#[cfg_attr(kani, kani::proof)]
#[cfg_attr(kani, kani::unwind(5))]
pub fn c08_update_adds_burns() {
  let mut w = World::new();
  let a = RuneId { block: kani::any(), tx: kani::any() };
  let b = RuneId { block: kani::any(), tx: kani::any() };
  kani::assume(a != b);
  let ea = any_rune_entry();
  let eb = any_rune_entry();
  w.id_to_entry.entries.push((a.store(), ea.store()));
  w.id_to_entry.entries.push((b.store(), eb.store()));
  let two: bool = kani::any();
  let (xa, xb): (u128, u128) = (kani::any(), kani::any());
  // supply invariant (C08): what is burned was part of the supply, which fits u128
  kani::assume(ea.burned.checked_add(xa).is_some() && eb.burned.checked_add(xb).is_some());
  let mut u = w.updater(0, Rune(0), 0, 0, false);
  *u.burned.entry(a).or_default() += xa;
  if two {
    *u.burned.entry(b).or_default() += xb;
  }
  let ok = forget(u.update()).is_some();
  assert!(ok, "C16.update.never_errors");
  assert!(w.id_to_entry.entries.len() == 2, "C08.update.no_entry_created_or_removed");
  let na = RuneEntry::load(*w.id_to_entry.peek(&a.store()).unwrap());
  let nb = RuneEntry::load(*w.id_to_entry.peek(&b.store()).unwrap());
  let mut wa = ea;
  wa.burned = ea.burned + xa;
  let mut wb = eb;
  if two {
    wb.burned = eb.burned + xb;
  }
  assert!(na == wa, "C08.update.burned_total_grows_by_the_blocks_burn");
  assert!(nb == wb, "C08.update.other_entries_unchanged");
  std::mem::forget(w);
}
