// Contracts for the kernel functions of src/index/updater/rune_updater.rs that are extracted
// verbatim into the E2 shim (contracts/ord/shim/updater.rs): RuneUpdater::{mint, etched,
// create_rune_entry, update}.  Properties C10 (mint step), C11 (etching rules, entry creation),
// C08 (burn accounting), C37 (RuneEtched event).  Tables, the event channel and HashMap are the
// environment shims of contracts/ord/shim/env.rs (assumed contracts: finite maps, ordered delivery).
//
// STATUS (measured 2026-09-22): c10_mint_step and c08_update_adds_burns did not finish under CBMC in
// 20 minutes (cadical and kissat) and are tier `manual`: written, compiled on every run, but run by
// neither command and counted nowhere.  c08_unallocated_moves_input_balances finishes (about 5
// minutes) and is in the thorough tier.
#![allow(unused_imports, dead_code, static_mut_refs)]
use super::*;
#[cfg(not(kani))]
use crate::verif_contracts::kani;
use crate::index::entry::Entry;
use crate::verif_contracts::varint_contract as vc;

fn any_txid() -> Txid {
  Txid::from_byte_array(kani::any::<[u8; 32]>())
}

fn any_terms() -> Terms {
  Terms { amount: kani::any(), cap: kani::any(), height: (kani::any(), kani::any()), offset: (kani::any(), kani::any()) }
}

fn any_rune_entry() -> RuneEntry {
  RuneEntry {
    block: kani::any(),
    burned: kani::any(),
    divisibility: kani::any(),
    etching: Txid::all_zeros(), // store/load of the txid bytes is C35 (c35_rune_entry_round_trip); not re-done here
    mints: kani::any(),
    number: kani::any(),
    premine: kani::any(),
    spaced_rune: SpacedRune { rune: Rune(kani::any()), spacers: kani::any() },
    symbol: kani::any(),
    terms: if kani::any() { Some(any_terms()) } else { None },
    timestamp: kani::any(),
    turbo: kani::any(),
  }
}

fn empty_tx() -> Transaction {
  Transaction {
    version: bitcoin::transaction::Version(2),
    lock_time: bitcoin::absolute::LockTime::ZERO,
    input: Vec::new(),
    output: Vec::new(),
  }
}

/// all the tables a RuneUpdater borrows, owned by the harness
struct World<'tx> {
  id_to_entry: Table<'tx, RuneIdValue, RuneEntryValue>,
  inscription_id_to_sequence_number: Table<'tx, InscriptionIdValue, u32>,
  outpoint_to_balances: Table<'tx, &'static OutPointValue, &'static [u8]>,
  rune_to_id: Table<'tx, u128, RuneIdValue>,
  sequence_number_to_rune_id: Table<'tx, u32, RuneIdValue>,
  statistic_to_count: Table<'tx, u64, u64>,
  transaction_id_to_rune: Table<'tx, &'static TxidValue, u128>,
  client: Client,
  sender: mpsc::Sender<Event>,
}

impl<'tx> World<'tx> {
  fn new() -> Self {
    Self {
      id_to_entry: Table::new(),
      inscription_id_to_sequence_number: Table::new(),
      outpoint_to_balances: Table::new(),
      rune_to_id: Table::new(),
      sequence_number_to_rune_id: Table::new(),
      statistic_to_count: Table::new(),
      transaction_id_to_rune: Table::new(),
      client: Client,
      sender: mpsc::Sender::new(),
    }
  }

  fn updater<'a>(&'a mut self, height: u32, minimum: Rune, runes: u64, block_time: u32, events: bool) -> RuneUpdater<'a, 'tx, 'a> {
    RuneUpdater {
      block_time,
      burned: HashMap::new(),
      client: &self.client,
      event_sender: if events { Some(&self.sender) } else { None },
      height,
      id_to_entry: &mut self.id_to_entry,
      inscription_id_to_sequence_number: &self.inscription_id_to_sequence_number,
      minimum,
      outpoint_to_balances: &mut self.outpoint_to_balances,
      rune_to_id: &mut self.rune_to_id,
      runes,
      sequence_number_to_rune_id: &mut self.sequence_number_to_rune_id,
      statistic_to_count: &mut self.statistic_to_count,
      transaction_id_to_rune: &mut self.transaction_id_to_rune,
    }
  }
}

fn forget<T>(r: Result<T>) -> Option<T> {
  match r {
    Ok(v) => Some(v),
    Err(e) => {
      std::mem::forget(e);
      None
    }
  }
}

// ------------------------------------------------------------------------------------------ C10

/// mint(id): a rune that is not in the table (not yet etched, or etched later in the block) has no
/// effect; a rune whose terms do not allow a mint at this height has no effect; otherwise the
/// stored mint count grows by exactly one, nothing else in the entry changes, and the amount
/// returned is the terms' amount.  With RuneEntry::mintable's contract (mints < cap required,
/// c10_mintable_exact) the count can never pass the cap.
//# props: C10
//# tier: manual
//# kind: complete (every rune entry, rune id, queried id and height; the table holds zero or one entry - other keys are untouched by the finite-map contract of the table)
//# fns: index::updater::rune_updater::RuneUpdater::mint
//# assume: redb::Table behaves as a finite map (shim contracts/ord/shim/env.rs)
//# timeout: 1800
#[cfg_attr(kani, kani::proof)]
#[cfg_attr(kani, kani::unwind(4))]
pub fn c10_mint_step() {
  let mut w = World::new();
  let k0 = RuneId { block: kani::any(), tx: kani::any() };
  let e0 = any_rune_entry();
  let present: bool = kani::any();
  if present {
    w.id_to_entry.put(k0.store(), e0.store());
  }
  let id = RuneId { block: kani::any(), tx: kani::any() };
  let height: u32 = kani::any();
  let mut u = w.updater(height, Rune(0), 0, 0, false);
  let got = forget(u.mint(id));
  std::mem::forget(u);
  assert!(got.is_some(), "C16.mint.never_errors");
  let got = got.unwrap();
  let hit = present && id == k0;
  let verdict = e0.mintable(u64::from(height));
  match got {
    Some(lot) => {
      assert!(hit, "C10.mint.unknown_rune_has_no_effect");
      assert!(verdict == Ok(lot.n()), "C10.mint.only_when_terms_allow_and_amount_is_terms_amount");
      assert!(w.id_to_entry.inserts == 1 && w.id_to_entry.len() == 1, "C10.mint.writes_exactly_one_entry");
      let stored = w.id_to_entry.peek(&k0.store());
      assert!(stored.is_some(), "C10.mint.writes_the_minted_rune");
      let after = RuneEntry::load(*stored.unwrap());
      assert!(after.mints == e0.mints + 1, "C10.mint.count_grows_by_exactly_one");
      let mut expect = e0;
      expect.mints = after.mints;
      assert!(after == expect, "C10.mint.nothing_else_in_the_entry_changes");
      if let Some(t) = e0.terms {
        assert!(after.mints <= t.cap.unwrap_or_default(), "C10.mint.count_never_exceeds_cap");
      }
    }
    None => {
      assert!(!hit || verdict.is_err(), "C10.mint.allowed_mint_is_performed");
      assert!(w.id_to_entry.inserts == 0, "C10.mint.refused_mint_writes_nothing");
    }
  }
  kani::cover!(matches!(got, Some(_)), "a mint happened");
  kani::cover!(hit && got.is_none(), "known rune, mint refused");
}

// ------------------------------------------------------------------------------------------ C08

/// update(): every rune's accumulated burn of the block is added to its entry's `burned`, nothing
/// else in the entry changes, no other entry is written.
//# props: C08
//# tier: manual
//# kind: bounded(one or two runes burned in the block; every entry field and amount symbolic, within the supply invariant burned + amount <= u128::MAX)
//# fns: index::updater::rune_updater::RuneUpdater::update
//# assume: redb::Table and HashMap behave as finite maps (shims)
//# timeout: 1800
#[cfg_attr(kani, kani::proof)]
#[cfg_attr(kani, kani::unwind(5))]
pub fn c08_update_adds_burns() {
  let mut w = World::new();
  let a = RuneId { block: kani::any(), tx: kani::any() };
  let b = RuneId { block: kani::any(), tx: kani::any() };
  kani::assume(a != b);
  let ea = any_rune_entry();
  let eb = any_rune_entry();
  w.id_to_entry.put(a.store(), ea.store());
  w.id_to_entry.put(b.store(), eb.store());
  let two: bool = kani::any();
  let (xa, xb): (u128, u128) = (kani::any(), kani::any());
  // supply invariant (C08): what is burned was part of the supply, which fits u128
  kani::assume(ea.burned.checked_add(xa).is_some() && eb.burned.checked_add(xb).is_some());
  let mut u = w.updater(0, Rune(0), 0, 0, false);
  *u.burned.entry(a).or_default() += xa;
  if two {
    *u.burned.entry(b).or_default() += xb;
  }
  let ok = forget(u.update()).is_some();
  assert!(ok, "C16.update.never_errors");
  assert!(w.id_to_entry.len() == 2, "C08.update.no_entry_created_or_removed");
  let na = RuneEntry::load(*w.id_to_entry.peek(&a.store()).unwrap());
  let nb = RuneEntry::load(*w.id_to_entry.peek(&b.store()).unwrap());
  let mut wa = ea;
  wa.burned = ea.burned + xa;
  let mut wb = eb;
  if two {
    wb.burned = eb.burned + xb;
  }
  assert!(na == wa, "C08.update.burned_total_grows_by_the_blocks_burn");
  assert!(nb == wb, "C08.update.other_entries_unchanged");
  std::mem::forget(w);
}

/// unallocated(tx): the balances stored for the spent outpoints are removed from the table and
/// returned summed per rune id - nothing else is touched, nothing is invented (C08: rune balances
/// appear only through premine and mints; here they are only moved).
//# props: C08
//# tier: thorough
//# kind: bounded(two inputs; the first spends an outpoint holding 1 or 2 stored balances, the second an outpoint with none; ids and amounts symbolic within the supply invariant)
//# fns: index::updater::rune_updater::RuneUpdater::unallocated, index::Index::decode_rune_balance
//# assume: redb::Table and HashMap behave as finite maps (shims); ordinals::varint::decode satisfies the contract proved by the C26 harnesses
//# cbmc: --unwindset memcmp.0:40
//# timeout: 1800
#[cfg_attr(kani, kani::proof)]
#[cfg_attr(kani, kani::unwind(9))]
#[cfg_attr(kani, kani::stub(ordinals::varint::decode, vc::decode))]
#[cfg_attr(kani, kani::stub(std::backtrace::Backtrace::capture, vc::backtrace_disabled))]
pub fn c08_unallocated_moves_input_balances() {
  vc::reset();
  let mut w = World::new();
  let spent = OutPoint { txid: any_txid(), vout: kani::any() };
  let other = OutPoint { txid: any_txid(), vout: kani::any() };
  kani::assume(spent != other);
  // the stored balance list: 1 or 2 (id, amount) records, each three varints
  let two: bool = kani::any();
  let id1 = RuneId { block: kani::any(), tx: kani::any() };
  let id2 = RuneId { block: kani::any(), tx: kani::any() };
  let (b1, b2): (u128, u128) = (kani::any(), kani::any());
  kani::assume(b1.checked_add(b2).is_some());
  let raw: [u8; 68] = kani::any();
  let mut buffer = raw.to_vec();
  let mut n = vc::declare(0, u128::from(id1.block), &buffer);
  n += vc::declare(n, u128::from(id1.tx), &buffer);
  n += vc::declare(n, b1, &buffer);
  if two {
    n += vc::declare(n, u128::from(id2.block), &buffer);
    n += vc::declare(n, u128::from(id2.tx), &buffer);
    n += vc::declare(n, b2, &buffer);
  }
  buffer.truncate(n);
  w.outpoint_to_balances.put(spent.store(), buffer);
  let mut tx = empty_tx();
  tx.input.push(TxIn { previous_output: spent, script_sig: ScriptBuf::new(), sequence: Sequence::MAX, witness: Witness::new() });
  tx.input.push(TxIn { previous_output: other, script_sig: ScriptBuf::new(), sequence: Sequence::MAX, witness: Witness::new() });
  let mut u = w.updater(0, Rune(0), 0, 0, false);
  let got = forget(u.unallocated(&tx));
  std::mem::forget(u);
  std::mem::forget(tx);
  assert!(got.is_some(), "C16.unallocated.never_errors_on_well_formed_balances");
  let got = got.unwrap();
  assert!(w.outpoint_to_balances.is_empty(), "C08.unallocated.spent_outpoint_balances_are_removed");
  assert!(w.outpoint_to_balances.removes == 2 && w.outpoint_to_balances.inserts == 0, "C08.unallocated.one_removal_per_input_no_writes");
  if two && id1 == id2 {
    assert!(got.len() == 1 && got.get(&id1) == Some(&Lot(b1 + b2)), "C08.unallocated.same_rune_balances_are_summed");
  } else if two {
    assert!(got.len() == 2 && got.get(&id1) == Some(&Lot(b1)) && got.get(&id2) == Some(&Lot(b2)), "C08.unallocated.each_rune_keeps_its_balance");
  } else {
    assert!(got.len() == 1 && got.get(&id1) == Some(&Lot(b1)), "C08.unallocated.single_balance_returned");
  }
  std::mem::forget(got);
  std::mem::forget(w);
}

//# props: C99
//# kind: probe
#[cfg_attr(kani, kani::proof)]
#[cfg_attr(kani, kani::unwind(5))]
pub fn probe_mint_small() {
  let mut w = World::new();
  let k0 = RuneId { block: kani::any(), tx: kani::any() };
  let mut e0 = RuneEntry::default();
  e0.mints = kani::any();
  e0.block = kani::any();
  e0.terms = Some(any_terms());
  w.id_to_entry.put(k0.store(), e0.store());
  let height: u32 = kani::any();
  let mut u = w.updater(height, Rune(0), 0, 0, false);
  let got = forget(u.mint(k0));
  std::mem::forget(u);
  assert!(got.is_some(), "probe");
  let verdict = e0.mintable(u64::from(height));
  match got.unwrap() {
    Some(lot) => {
      assert!(verdict == Ok(lot.n()), "probe.amount");
      let after = RuneEntry::load(*w.id_to_entry.peek(&k0.store()).unwrap());
      assert!(after.mints == e0.mints + 1, "probe.mints");
    }
    None => assert!(verdict.is_err(), "probe.none"),
  }
}
