// Contracts for Settings::or (src/settings.rs), property C36.  `Settings::merge` builds the effective
// settings as from_options(flags).or(from_env(env)).or(config_file).or_defaults(): precedence is
// exactly the contract of `or` applied left to right.
#![allow(unused_imports, dead_code)]
use super::*;
#[cfg(not(kani))]
use crate::verif_contracts::kani;

fn path(tag: u8) -> Option<PathBuf> {
  if kani::any() {
    let mut p = PathBuf::new();
    p.push(if tag == 0 { "a" } else if tag == 1 { "b" } else { "c" });
    Some(p)
  } else {
    None
  }
}

fn text(tag: u8) -> Option<String> {
  if kani::any() { Some(String::from(if tag == 0 { "a" } else if tag == 1 { "b" } else { "c" })) } else { None }
}

fn chain(tag: u8) -> Option<Chain> {
  if kani::any() { Some(if tag == 0 { Chain::Signet } else if tag == 1 { Chain::Regtest } else { Chain::Testnet4 }) } else { None }
}

fn num<T: From<u8>>(tag: u8) -> Option<T> {
  if kani::any() { Some(T::from(tag + 1)) } else { None }
}

fn size(tag: u8) -> Option<usize> {
  if kani::any() { Some(tag as usize + 1) } else { None }
}

/// a source whose every optional setting is independently present or absent; present values carry
/// the source's tag so that the winner can be told apart
fn source(tag: u8, hidden: Option<InscriptionId>) -> Settings {
  Settings {
    bitcoin_data_dir: path(tag),
    bitcoin_rpc_limit: num(tag),
    bitcoin_rpc_password: text(tag),
    bitcoin_rpc_url: text(tag),
    bitcoin_rpc_username: text(tag),
    chain: chain(tag),
    commit_interval: size(tag),
    config: path(tag),
    config_dir: path(tag),
    cookie_file: path(tag),
    data_dir: path(tag),
    height_limit: num(tag),
    hidden: match hidden {
      Some(id) => {
        let mut h = HashSet::new();
        h.insert(id);
        Some(h)
      }
      None => None,
    },
    http_port: num(tag),
    index: path(tag),
    index_addresses: kani::any(),
    index_cache_size: size(tag),
    index_runes: kani::any(),
    index_sats: kani::any(),
    index_transactions: kani::any(),
    integration_test: kani::any(),
    max_savepoints: size(tag),
    no_index_inscriptions: kani::any(),
    savepoint_interval: size(tag),
    server_password: text(tag),
    server_url: text(tag),
    server_username: text(tag),
  }
}

macro_rules! first_wins {
  ($r:expr, $a:expr, $b:expr, $($f:ident),*) => {$(
    assert!($r.$f == if $a.$f.is_some() { $a.$f.clone() } else { $b.$f.clone() }, concat!("C36.or.", stringify!($f), "_takes_first_source_that_sets_it"));
  )*};
}

macro_rules! any_sets {
  ($r:expr, $a:expr, $b:expr, $($f:ident),*) => {$(
    assert!($r.$f == ($a.$f || $b.$f), concat!("C36.or.", stringify!($f), "_is_on_if_any_source_sets_it"));
  )*};
}

/// a.or(b): every optional setting is a's when a sets it, otherwise b's; every boolean switch is on
/// if either sets it; the hidden list is the union.
//# props: C36
//# kind: complete (every presence pattern of the 21 optional settings and 6 switches on both sides, distinct marker values; hidden lists of 0 or 1 element per side)
//# fns: settings::Settings::or
//# assume: HashSet behaves as a finite set (shim contracts/ord/shim/env.rs); PathBuf / String values are markers "a" / "b"
//# timeout: 900
#[cfg_attr(kani, kani::proof)]
#[cfg_attr(kani, kani::unwind(6))]
pub fn c36_or_first_source_wins() {
  let ha: Option<InscriptionId> = if kani::any() { Some(InscriptionId { txid: Txid::all_zeros(), index: 1 }) } else { None };
  let hb: Option<InscriptionId> = if kani::any() { Some(InscriptionId { txid: Txid::all_zeros(), index: kani::any() }) } else { None };
  let a = source(0, ha);
  let b = source(1, hb);
  let (a0, b0) = (a.clone(), b.clone());
  let r = a.or(b);
  first_wins!(r, a0, b0, bitcoin_data_dir, bitcoin_rpc_limit, bitcoin_rpc_password, bitcoin_rpc_url, bitcoin_rpc_username, chain,
    commit_interval, config, config_dir, cookie_file, data_dir, height_limit, http_port, index, index_cache_size, max_savepoints,
    savepoint_interval, server_password, server_url, server_username);
  any_sets!(r, a0, b0, index_addresses, index_runes, index_sats, index_transactions, integration_test, no_index_inscriptions);
  let h = r.hidden.as_ref();
  assert!(h.is_some(), "C36.or.hidden_list_always_present");
  let h = h.unwrap();
  if let Some(x) = ha {
    assert!(h.contains(&x), "C36.or.hidden_contains_first_sources_entries");
  }
  if let Some(y) = hb {
    assert!(h.contains(&y), "C36.or.hidden_contains_second_sources_entries");
  }
  let want = match (ha, hb) {
    (Some(x), Some(y)) => if x == y { 1 } else { 2 },
    (None, None) => 0,
    _ => 1,
  };
  assert!(h.len() == want, "C36.or.hidden_is_exactly_the_union");
  std::mem::forget((a0, b0, r));
}

/// three sources chained as merge does: flags.or(env).or(config) - a setting comes from the flags if
/// set there, else from the environment, else from the config file (checked on one representative
/// setting of each kind; c36_or_first_source_wins covers every field of a single `or`).
//# props: C36
//# kind: complete (every presence pattern of one path, one number, one string and one switch across three sources)
//# fns: settings::Settings::or
//# timeout: 900
#[cfg_attr(kani, kani::proof)]
#[cfg_attr(kani, kani::unwind(6))]
pub fn c36_or_chain_precedence() {
  let mk = |tag: u8| Settings { data_dir: path(tag), http_port: num(tag), server_url: text(tag), index_sats: kani::any(), ..Default::default() };
  let (f, e, c) = (mk(0), mk(1), mk(2));
  let (f0, e0, c0) = (f.clone(), e.clone(), c.clone());
  let r = f.or(e).or(c);
  assert!(r.data_dir == f0.data_dir.clone().or(e0.data_dir.clone()).or(c0.data_dir.clone()), "C36.chain.path_flag_then_env_then_config");
  assert!(r.http_port == f0.http_port.or(e0.http_port).or(c0.http_port), "C36.chain.number_flag_then_env_then_config");
  assert!(r.server_url == f0.server_url.clone().or(e0.server_url.clone()).or(c0.server_url.clone()), "C36.chain.string_flag_then_env_then_config");
  assert!(r.index_sats == (f0.index_sats || e0.index_sats || c0.index_sats), "C36.chain.switch_on_if_any");
  std::mem::forget((f0, e0, c0, r));
}
