// Contracts for Settings::or and Settings::from_options (src/settings.rs), property C36.
// `Settings::merge` builds the effective settings as
//   from_options(flags).or(from_env(env)).or(config_file).or_defaults()
// so precedence is exactly the contract of `or` applied left to right.
//
// Harness discipline (measured): comparing PathBuf values goes through Path::components() and does
// not terminate under CBMC, and cloning a whole Settings is expensive; values are therefore MARKERS
// whose identity is their length ("a" from the first source, "bb" from the second, "ccc" from the
// third), fields are checked in groups of one kind, and nothing is cloned.
#![allow(unused_imports, dead_code)]
use super::*;
#[cfg(not(kani))]
use crate::verif_contracts::kani;

const MARK: [&str; 4] = ["", "a", "bb", "ccc"];

fn mk_path(tag: usize) -> PathBuf {
  PathBuf::from(String::from(MARK[tag])) // From<String>: no path parsing (PathBuf::push parses components)
}
fn key_path(p: &PathBuf) -> usize {
  p.as_os_str().len()
}
fn mk_text(tag: usize) -> String {
  String::from(MARK[tag])
}
fn key_text(s: &String) -> usize {
  s.len()
}
fn mk_chain(tag: usize) -> Chain {
  match tag {
    1 => Chain::Signet,
    2 => Chain::Regtest,
    _ => Chain::Testnet4,
  }
}
fn key_chain(c: &Chain) -> usize {
  match c {
    Chain::Signet => 1,
    Chain::Regtest => 2,
    Chain::Testnet4 => 3,
    _ => 0,
  }
}

/// who wins between two sources that may or may not set the field: 1 = first, 2 = second, None
fn winner(pa: bool, pb: bool) -> Option<usize> {
  if pa { Some(1) } else if pb { Some(2) } else { None }
}

macro_rules! or_group {
  ($a:ident, $b:ident, $mk:expr; $($f:ident => $pa:ident $pb:ident),*) => {
    $( let $pa: bool = kani::any(); let $pb: bool = kani::any();
       if $pa { $a.$f = Some($mk(1)); }
       if $pb { $b.$f = Some($mk(2)); } )*
  };
}

macro_rules! or_check {
  ($r:ident, $key:expr; $($f:ident => $pa:ident $pb:ident),*) => {
    $( assert!($r.$f.as_ref().map($key) == winner($pa, $pb), concat!("C36.or.", stringify!($f), "_takes_first_source_that_sets_it")); )*
  };
}

/// a.or(b), path-valued settings: each is a's when a sets it, otherwise b's
//# props: C36
//# kind: complete (every presence pattern of the 7 path settings on both sides)
//# fns: settings::Settings::or
//# assume: HashSet behaves as a finite set (shim contracts/ord/shim/env.rs); values are markers
//# timeout: 900
#[cfg_attr(kani, kani::proof)]
#[cfg_attr(kani, kani::unwind(12))]
pub fn c36_or_paths() {
  let mut a = Settings::default();
  let mut b = Settings::default();
  or_group!(a, b, mk_path; bitcoin_data_dir => a0 b0, config => a1 b1, config_dir => a2 b2, cookie_file => a3 b3, data_dir => a4 b4, index => a5 b5);
  let r = a.or(b);
  or_check!(r, key_path; bitcoin_data_dir => a0 b0, config => a1 b1, config_dir => a2 b2, cookie_file => a3 b3, data_dir => a4 b4, index => a5 b5);
  assert!(r.chain.is_none() && r.http_port.is_none() && r.server_url.is_none() && !r.index_sats, "C36.or.unset_settings_stay_unset");
  std::mem::forget(r);
}

/// a.or(b), string-valued settings
//# props: C36
//# kind: complete (every presence pattern of the 6 string settings on both sides)
//# fns: settings::Settings::or
//# assume: HashSet behaves as a finite set (shim); values are markers
//# timeout: 900
#[cfg_attr(kani, kani::proof)]
#[cfg_attr(kani, kani::unwind(12))]
pub fn c36_or_strings() {
  let mut a = Settings::default();
  let mut b = Settings::default();
  or_group!(a, b, mk_text; bitcoin_rpc_password => a0 b0, bitcoin_rpc_url => a1 b1, bitcoin_rpc_username => a2 b2, server_password => a3 b3, server_url => a4 b4, server_username => a5 b5);
  let r = a.or(b);
  or_check!(r, key_text; bitcoin_rpc_password => a0 b0, bitcoin_rpc_url => a1 b1, bitcoin_rpc_username => a2 b2, server_password => a3 b3, server_url => a4 b4, server_username => a5 b5);
  std::mem::forget(r);
}

/// a.or(b), numeric settings and the chain
//# props: C36
//# kind: complete (every presence pattern of the 7 numeric settings and the chain on both sides)
//# fns: settings::Settings::or
//# assume: HashSet behaves as a finite set (shim)
//# timeout: 900
#[cfg_attr(kani, kani::proof)]
#[cfg_attr(kani, kani::unwind(12))]
pub fn c36_or_numbers_and_chain() {
  let mut a = Settings::default();
  let mut b = Settings::default();
  or_group!(a, b, |t: usize| t as u32; bitcoin_rpc_limit => a0 b0, height_limit => a1 b1);
  or_group!(a, b, |t: usize| t as u16; http_port => a2 b2);
  or_group!(a, b, |t: usize| t; commit_interval => a3 b3, index_cache_size => a4 b4, max_savepoints => a5 b5, savepoint_interval => a6 b6);
  or_group!(a, b, mk_chain; chain => a7 b7);
  let r = a.or(b);
  or_check!(r, |x: &u32| *x as usize; bitcoin_rpc_limit => a0 b0, height_limit => a1 b1);
  or_check!(r, |x: &u16| *x as usize; http_port => a2 b2);
  or_check!(r, |x: &usize| *x; commit_interval => a3 b3, index_cache_size => a4 b4, max_savepoints => a5 b5, savepoint_interval => a6 b6);
  or_check!(r, key_chain; chain => a7 b7);
  std::mem::forget(r);
}

/// a.or(b), boolean switches: on if either source sets them
//# props: C36
//# kind: complete (every value of the 6 switches on both sides)
//# fns: settings::Settings::or
//# assume: HashSet behaves as a finite set (shim)
//# timeout: 900
#[cfg_attr(kani, kani::proof)]
#[cfg_attr(kani, kani::unwind(12))]
pub fn c36_or_switches() {
  let mut a = Settings::default();
  let mut b = Settings::default();
  let sa: [bool; 6] = kani::any();
  let sb: [bool; 6] = kani::any();
  a.index_addresses = sa[0];
  a.index_runes = sa[1];
  a.index_sats = sa[2];
  a.index_transactions = sa[3];
  a.integration_test = sa[4];
  a.no_index_inscriptions = sa[5];
  b.index_addresses = sb[0];
  b.index_runes = sb[1];
  b.index_sats = sb[2];
  b.index_transactions = sb[3];
  b.integration_test = sb[4];
  b.no_index_inscriptions = sb[5];
  let r = a.or(b);
  assert!(r.index_addresses == (sa[0] || sb[0]), "C36.or.index_addresses_is_on_if_any_source_sets_it");
  assert!(r.index_runes == (sa[1] || sb[1]), "C36.or.index_runes_is_on_if_any_source_sets_it");
  assert!(r.index_sats == (sa[2] || sb[2]), "C36.or.index_sats_is_on_if_any_source_sets_it");
  assert!(r.index_transactions == (sa[3] || sb[3]), "C36.or.index_transactions_is_on_if_any_source_sets_it");
  assert!(r.integration_test == (sa[4] || sb[4]), "C36.or.integration_test_is_on_if_any_source_sets_it");
  assert!(r.no_index_inscriptions == (sa[5] || sb[5]), "C36.or.no_index_inscriptions_is_on_if_any_source_sets_it");
  std::mem::forget(r);
}

/// a.or(b), the hidden-inscription list: always present afterwards and exactly the union
//# props: C36
//# kind: bounded(hidden lists of 0 or 1 element per side; the second element's index symbolic)
//# fns: settings::Settings::or
//# assume: HashSet behaves as a finite set (shim)
//# cbmc: --unwindset memcmp.0:40
//# timeout: 900
#[cfg_attr(kani, kani::proof)]
#[cfg_attr(kani, kani::unwind(12))]
pub fn c36_or_hidden_union() {
  let mut a = Settings::default();
  let mut b = Settings::default();
  let ha: Option<InscriptionId> = if kani::any() { Some(InscriptionId { txid: Txid::all_zeros(), index: 1 }) } else { None };
  let hb: Option<InscriptionId> = if kani::any() { Some(InscriptionId { txid: Txid::all_zeros(), index: kani::any() }) } else { None };
  if let Some(x) = ha {
    let mut h = HashSet::new();
    h.insert(x);
    a.hidden = Some(h);
  }
  if let Some(y) = hb {
    let mut h = HashSet::new();
    h.insert(y);
    b.hidden = Some(h);
  }
  let r = a.or(b);
  let h = r.hidden.as_ref();
  assert!(h.is_some(), "C36.or.hidden_list_always_present");
  let h = h.unwrap();
  if let Some(x) = ha {
    assert!(h.contains(&x), "C36.or.hidden_contains_first_sources_entries");
  }
  if let Some(y) = hb {
    assert!(h.contains(&y), "C36.or.hidden_contains_second_sources_entries");
  }
  let want = match (ha, hb) {
    (Some(x), Some(y)) => if x == y { 1 } else { 2 },
    (None, None) => 0,
    _ => 1,
  };
  assert!(h.len() == want, "C36.or.hidden_is_exactly_the_union");
  std::mem::forget(r);
}

/// three sources chained as merge does: flags.or(env).or(config) - a setting comes from the flags if
/// set there, else from the environment, else from the config file
//# props: C36
//# kind: complete (every presence pattern of one path, one number, one string and one switch across three sources)
//# fns: settings::Settings::or
//# assume: HashSet behaves as a finite set (shim)
//# timeout: 900
#[cfg_attr(kani, kani::proof)]
#[cfg_attr(kani, kani::unwind(12))]
pub fn c36_or_chain_precedence() {
  let p: [[bool; 3]; 3] = kani::any();
  let sw: [bool; 3] = kani::any();
  let mk = |i: usize| {
    let mut s = Settings::default();
    if p[i][0] {
      s.data_dir = Some(mk_path(i + 1));
    }
    if p[i][1] {
      s.http_port = Some((i + 1) as u16);
    }
    if p[i][2] {
      s.server_url = Some(mk_text(i + 1));
    }
    s.index_sats = sw[i];
    s
  };
  let r = mk(0).or(mk(1)).or(mk(2));
  let first = |k: usize| if p[0][k] { Some(1) } else if p[1][k] { Some(2) } else if p[2][k] { Some(3) } else { None };
  assert!(r.data_dir.as_ref().map(key_path) == first(0), "C36.chain.path_flag_then_env_then_config");
  assert!(r.http_port.map(|x| x as usize) == first(1), "C36.chain.number_flag_then_env_then_config");
  assert!(r.server_url.as_ref().map(key_text) == first(2), "C36.chain.string_flag_then_env_then_config");
  assert!(r.index_sats == (sw[0] || sw[1] || sw[2]), "C36.chain.switch_on_if_any");
  std::mem::forget(r);
}

/// from_options(flags): every setting that has a command-line flag is exactly what the flag says -
/// in particular a flag whose value equals the default is still "set" (it must be able to override
/// the environment and the config file) - and the chain is the first of --signet, --regtest,
/// --testnet, --testnet4, --chain that is given.  (Strengthened after sub-agent seed C36-2.)
//# props: C36
//# kind: complete (every combination of the five chain flags, every value of --chain; every presence pattern of the numeric flags and switches)
//# fns: settings::Settings::from_options
//# timeout: 900
#[cfg_attr(kani, kani::proof)]
#[cfg_attr(kani, kani::unwind(12))]
pub fn c36_from_options_chain_numbers_switches() {
  let mut o = Options::default();
  let arg: Option<u8> = kani::any();
  o.chain_argument = match arg {
    Some(k) => Some(match k % 5 {
      0 => Chain::Mainnet,
      1 => Chain::Regtest,
      2 => Chain::Signet,
      3 => Chain::Testnet,
      _ => Chain::Testnet4,
    }),
    None => None,
  };
  o.signet = kani::any();
  o.regtest = kani::any();
  o.testnet = kani::any();
  o.testnet4 = kani::any();
  o.bitcoin_rpc_limit = kani::any();
  o.height_limit = kani::any();
  o.commit_interval = kani::any();
  o.index_cache_size = kani::any();
  o.max_savepoints = kani::any();
  o.savepoint_interval = kani::any();
  let sw: [bool; 6] = kani::any();
  o.index_addresses = sw[0];
  o.index_runes = sw[1];
  o.index_sats = sw[2];
  o.index_transactions = sw[3];
  o.integration_test = sw[4];
  o.no_index_inscriptions = sw[5];
  let (signet, regtest, testnet, testnet4, chain_argument) = (o.signet, o.regtest, o.testnet, o.testnet4, o.chain_argument);
  let nums = (o.bitcoin_rpc_limit, o.height_limit, o.commit_interval, o.index_cache_size, o.max_savepoints, o.savepoint_interval);
  let s = Settings::from_options(o);
  let want = if signet {
    Some(Chain::Signet)
  } else if regtest {
    Some(Chain::Regtest)
  } else if testnet {
    Some(Chain::Testnet)
  } else if testnet4 {
    Some(Chain::Testnet4)
  } else {
    chain_argument
  };
  assert!(s.chain == want, "C36.from_options.chain_is_the_first_chain_flag_given_even_if_it_is_the_default");
  assert!((s.bitcoin_rpc_limit, s.height_limit, s.commit_interval, s.index_cache_size, s.max_savepoints, s.savepoint_interval) == nums, "C36.from_options.numeric_flags_kept");
  assert!(s.index_addresses == sw[0] && s.index_runes == sw[1] && s.index_sats == sw[2] && s.index_transactions == sw[3] && s.integration_test == sw[4] && s.no_index_inscriptions == sw[5], "C36.from_options.switches_kept");
  assert!(s.hidden.is_none() && s.http_port.is_none() && s.server_url.is_none(), "C36.from_options.settings_without_a_flag_stay_unset");
  std::mem::forget(s);
}

/// from_options(flags), path- and string-valued flags
//# props: C36
//# kind: complete (every presence pattern of the 6 path flags and 4 string flags)
//# fns: settings::Settings::from_options
//# timeout: 900
#[cfg_attr(kani, kani::proof)]
#[cfg_attr(kani, kani::unwind(12))]
pub fn c36_from_options_paths_strings() {
  let mut o = Options::default();
  let pp: [bool; 6] = kani::any();
  let ps: [bool; 4] = kani::any();
  if pp[0] { o.bitcoin_data_dir = Some(mk_path(1)); }
  if pp[1] { o.config = Some(mk_path(1)); }
  if pp[2] { o.config_dir = Some(mk_path(1)); }
  if pp[3] { o.cookie_file = Some(mk_path(1)); }
  if pp[4] { o.data_dir = Some(mk_path(1)); }
  if pp[5] { o.index = Some(mk_path(1)); }
  if ps[0] { o.bitcoin_rpc_password = Some(mk_text(1)); }
  if ps[1] { o.bitcoin_rpc_url = Some(mk_text(1)); }
  if ps[2] { o.bitcoin_rpc_username = Some(mk_text(1)); }
  if ps[3] { o.server_password = Some(mk_text(1)); }
  let s = Settings::from_options(o);
  assert!(s.bitcoin_data_dir.is_some() == pp[0] && s.config.is_some() == pp[1] && s.config_dir.is_some() == pp[2]
    && s.cookie_file.is_some() == pp[3] && s.data_dir.is_some() == pp[4] && s.index.is_some() == pp[5], "C36.from_options.path_flags_kept");
  assert!(s.bitcoin_rpc_password.is_some() == ps[0] && s.bitcoin_rpc_url.is_some() == ps[1] && s.bitcoin_rpc_username.is_some() == ps[2]
    && s.server_password.is_some() == ps[3], "C36.from_options.string_flags_kept");
  assert!(s.server_username.is_none() && s.chain.is_none(), "C36.from_options.unset_flags_stay_unset");
  std::mem::forget(s);
}
