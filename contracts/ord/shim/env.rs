// Environment shims for the per-transaction kernel functions of the indexer (engine E2/E3).
// The real types cannot exist under a verifier (redb B-trees on disk, tokio channels, a bitcoind RPC
// client, SipHash tables seeded from the OS); each shim has the same method names and signatures
// as the calls made by the real code and the contract stated here - these contracts are ASSUMED of
// the real dependency, not proved:
//
//   Table<K, V>        a finite map: get returns the last value inserted for the key; insert
//                      overwrites that key only and returns the old value; remove deletes that key
//                      only and returns the old value.  (redb: Table::{get, insert, remove}.)
//   HashMap<K, V>      a finite map with entry().or_default(), get_mut, iteration in unspecified
//                      order (postconditions in the harnesses are order-insensitive).
//   mpsc::Sender<T>    delivers in order; blocking_send never fails while the receiver lives.
//   Client             the bitcoind RPC client: not reached by the functions under contract.
#![allow(dead_code)]
use std::{borrow::Borrow, cell::RefCell, marker::PhantomData};

pub trait Slot: 'static {
  type Owned: Clone + PartialEq;
  type SelfType<'a>;
  fn own<'a>(x: &Self::SelfType<'a>) -> Self::Owned;
  fn view<'a>(o: &'a Self::Owned) -> Self::SelfType<'a>;
}

macro_rules! copy_slot {
  ($($t:ty),* $(,)?) => {$(
    impl $crate::env::Slot for $t {
      type Owned = $t;
      type SelfType<'a> = $t;
      fn own<'a>(x: &$t) -> $t { *x }
      fn view<'a>(o: &'a $t) -> $t { *o }
    }
  )*};
}
pub(crate) use copy_slot;
copy_slot!(u32, u64, u128);

impl<const N: usize> Slot for &'static [u8; N] {
  type Owned = [u8; N];
  type SelfType<'a> = &'a [u8; N];
  fn own<'a>(x: &&'a [u8; N]) -> [u8; N] {
    **x
  }
  fn view<'a>(o: &'a [u8; N]) -> &'a [u8; N] {
    o
  }
}

impl Slot for &'static [u8] {
  type Owned = Vec<u8>;
  type SelfType<'a> = &'a [u8];
  fn own<'a>(x: &&'a [u8]) -> Vec<u8> {
    x.to_vec()
  }
  fn view<'a>(o: &'a Vec<u8>) -> &'a [u8] {
    o.as_slice()
  }
}

pub struct AccessGuard<V: Slot + 'static> {
  value: V::Owned,
}

impl<V: Slot + 'static> AccessGuard<V> {
  pub fn value(&self) -> V::SelfType<'_> {
    V::view(&self.value)
  }
}

/// SHIM for redb::Table: a finite map held as an association list (harnesses preload 0..2 entries)
pub struct Table<'tx, K: Slot + 'static, V: Slot + 'static> {
  pub entries: Vec<(K::Owned, V::Owned)>,
  pub inserts: usize,
  pub removes: usize,
  _tx: PhantomData<&'tx ()>,
}

impl<'tx, K: Slot + 'static, V: Slot + 'static> Table<'tx, K, V> {
  pub fn new() -> Self {
    Self { entries: Vec::new(), inserts: 0, removes: 0, _tx: PhantomData }
  }

  fn position(&self, k: &K::Owned) -> Option<usize> {
    let mut i = 0;
    while i < self.entries.len() {
      if self.entries[i].0 == *k {
        return Some(i);
      }
      i += 1;
    }
    None
  }

  pub fn peek(&self, k: &K::Owned) -> Option<&V::Owned> {
    match self.position(k) {
      Some(i) => Some(&self.entries[i].1),
      None => None,
    }
  }

  pub fn get<'a>(&self, key: impl Borrow<K::SelfType<'a>>) -> Result<Option<AccessGuard<V>>, redb::StorageError> {
    let k = K::own(key.borrow());
    Ok(self.peek(&k).map(|v| AccessGuard { value: v.clone() }))
  }

  pub fn insert<'k, 'v>(
    &mut self,
    key: impl Borrow<K::SelfType<'k>>,
    value: impl Borrow<V::SelfType<'v>>,
  ) -> Result<Option<AccessGuard<V>>, redb::StorageError> {
    let k = K::own(key.borrow());
    let v = V::own(value.borrow());
    self.inserts += 1;
    match self.position(&k) {
      Some(i) => {
        let old = std::mem::replace(&mut self.entries[i].1, v);
        Ok(Some(AccessGuard { value: old }))
      }
      None => {
        self.entries.push((k, v));
        Ok(None)
      }
    }
  }

  pub fn remove<'a>(&mut self, key: impl Borrow<K::SelfType<'a>>) -> Result<Option<AccessGuard<V>>, redb::StorageError> {
    let k = K::own(key.borrow());
    self.removes += 1;
    match self.position(&k) {
      Some(i) => {
        let (_, v) = self.entries.remove(i);
        Ok(Some(AccessGuard { value: v }))
      }
      None => Ok(None),
    }
  }
}

/// SHIM for std::collections::HashMap inside the kernels: association list
#[derive(Clone, Debug, Default, PartialEq)]
pub struct HashMap<K, V> {
  pub items: Vec<(K, V)>,
}

pub struct Entry<'a, K, V> {
  map: &'a mut HashMap<K, V>,
  key: K,
}

impl<K: PartialEq, V> HashMap<K, V> {
  pub fn new() -> Self {
    Self { items: Vec::new() }
  }
  fn position(&self, k: &K) -> Option<usize> {
    let mut i = 0;
    while i < self.items.len() {
      if self.items[i].0 == *k {
        return Some(i);
      }
      i += 1;
    }
    None
  }
  pub fn entry(&mut self, key: K) -> Entry<'_, K, V> {
    Entry { map: self, key }
  }
  pub fn get(&self, k: &K) -> Option<&V> {
    match self.position(k) {
      Some(i) => Some(&self.items[i].1),
      None => None,
    }
  }
  pub fn get_mut(&mut self, k: &K) -> Option<&mut V> {
    match self.position(k) {
      Some(i) => Some(&mut self.items[i].1),
      None => None,
    }
  }
  pub fn is_empty(&self) -> bool {
    self.items.is_empty()
  }
  pub fn len(&self) -> usize {
    self.items.len()
  }
  pub fn iter(&self) -> impl Iterator<Item = (&K, &V)> {
    self.items.iter().map(|(k, v)| (k, v))
  }
}

impl<'a, K: PartialEq, V: Default> Entry<'a, K, V> {
  pub fn or_default(self) -> &'a mut V {
    match self.map.position(&self.key) {
      Some(i) => &mut self.map.items[i].1,
      None => {
        self.map.items.push((self.key, V::default()));
        let n = self.map.items.len();
        &mut self.map.items[n - 1].1
      }
    }
  }
}

impl<K, V> IntoIterator for HashMap<K, V> {
  type Item = (K, V);
  type IntoIter = std::vec::IntoIter<(K, V)>;
  fn into_iter(self) -> Self::IntoIter {
    self.items.into_iter()
  }
}

impl<'a, K, V> IntoIterator for &'a HashMap<K, V> {
  type Item = (&'a K, &'a V);
  type IntoIter = std::iter::Map<std::slice::Iter<'a, (K, V)>, fn(&'a (K, V)) -> (&'a K, &'a V)>;
  fn into_iter(self) -> Self::IntoIter {
    fn split<K, V>(kv: &(K, V)) -> (&K, &V) {
      (&kv.0, &kv.1)
    }
    self.items.iter().map(split as fn(&'a (K, V)) -> (&'a K, &'a V))
  }
}

pub mod mpsc {
  use std::cell::RefCell;

  /// SHIM for tokio::sync::mpsc::Sender: records what was sent, in order
  pub struct Sender<T> {
    pub sent: RefCell<Vec<T>>,
  }

  #[derive(Debug)]
  pub struct SendError;

  impl std::fmt::Display for SendError {
    fn fmt(&self, f: &mut std::fmt::Formatter) -> std::fmt::Result {
      write!(f, "channel closed")
    }
  }

  impl std::error::Error for SendError {}

  impl<T> Sender<T> {
    pub fn new() -> Self {
      Self { sent: RefCell::new(Vec::new()) }
    }
    pub fn blocking_send(&self, value: T) -> Result<(), SendError> {
      self.sent.borrow_mut().push(value);
      Ok(())
    }
  }
}

/// SHIM for bitcoincore_rpc::Client (never called by the functions under contract)
pub struct Client;
