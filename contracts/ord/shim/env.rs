// Environment shims for the per-transaction kernel functions of the indexer (engine E2/E3).
// The real types cannot exist under a verifier (redb B-trees on disk, tokio channels, a bitcoind RPC
// client, SipHash tables seeded from the OS); each shim has the same method names and signatures
// as the calls made by the real code and the contract stated here - these contracts are ASSUMED of
// the real dependency, not proved:
//
//   Table<K, V>        a finite map: get returns the last value inserted for the key; insert
//                      overwrites that key only and returns the old value; remove deletes that key
//                      only and returns the old value.  (redb: Table::{get, insert, remove}.)
//   HashMap<K, V>      a finite map with entry().or_default(), get_mut, iteration in unspecified
//                      order (postconditions in the harnesses are order-insensitive); HashSet<T> a
//                      finite set.  Both live in fixed arrays of capacity 4 (contracts/support/
//                      hashmap_shim.rs): heap-backed shims cost CBMC tens of GB.
//   mpsc::Sender<T>    delivers in order; blocking_send never fails while the receiver lives.
//   Client             the bitcoind RPC client: not reached by the functions under contract.
#![allow(dead_code)]
use std::{borrow::Borrow, marker::PhantomData};

pub trait Slot {
  type Owned: Clone + PartialEq + 'static;
  type SelfType<'a>
  where
    Self: 'a;
  fn own<'a>(x: &Self::SelfType<'a>) -> Self::Owned
  where
    Self: 'a;
  fn view<'a>(o: &'a Self::Owned) -> Self::SelfType<'a>
  where
    Self: 'a;
}

macro_rules! copy_slot {
  ($($t:ty),* $(,)?) => {$(
    impl $crate::env::Slot for $t {
      type Owned = $t;
      type SelfType<'a> = $t where Self: 'a;
      fn own<'a>(x: &$t) -> $t where Self: 'a { *x }
      fn view<'a>(o: &'a $t) -> $t where Self: 'a { *o }
    }
  )*};
}
pub(crate) use copy_slot;
copy_slot!(u32, u64, u128);

impl<'x, const N: usize> Slot for &'x [u8; N] {
  type Owned = [u8; N];
  type SelfType<'a> = &'a [u8; N] where Self: 'a;
  fn own<'a>(x: &&'a [u8; N]) -> [u8; N]
  where
    Self: 'a,
  {
    **x
  }
  fn view<'a>(o: &'a [u8; N]) -> &'a [u8; N]
  where
    Self: 'a,
  {
    o
  }
}

impl<'x> Slot for &'x [u8] {
  type Owned = Vec<u8>;
  type SelfType<'a> = &'a [u8] where Self: 'a;
  fn own<'a>(x: &&'a [u8]) -> Vec<u8>
  where
    Self: 'a,
  {
    x.to_vec()
  }
  fn view<'a>(o: &'a Vec<u8>) -> &'a [u8]
  where
    Self: 'a,
  {
    o.as_slice()
  }
}

/// error type of the shim table (never produced).  Not redb::StorageError: Kani 0.68 aborts with an
/// internal compiler error on `Result<Option<AccessGuard<..>>, redb::StorageError>` (discriminant
/// read of a doubly niche-encoded enum).
#[derive(Debug)]
pub struct TableError;

impl std::fmt::Display for TableError {
  fn fmt(&self, f: &mut std::fmt::Formatter) -> std::fmt::Result {
    write!(f, "storage error")
  }
}

impl std::error::Error for TableError {}

/// The value sits in a MaybeUninit (always initialised) so that rustc cannot use a niche inside it
/// for the surrounding Option / Result: Kani 0.68 aborts on enums whose niche is the 128-bit tag of
/// an Option<u128> (as in RuneEntryValue).  Consequence: a guard never drops its value (leak; fine
/// under a verifier).
pub struct AccessGuard<V: Slot> {
  value: std::mem::MaybeUninit<V::Owned>,
}

impl<V: Slot> AccessGuard<V> {
  fn new(value: V::Owned) -> Self {
    Self { value: std::mem::MaybeUninit::new(value) }
  }
  pub fn value(&self) -> V::SelfType<'_> {
    V::view(unsafe { self.value.assume_init_ref() })
  }
}

/// SHIM for redb::Table: a finite map with room for CAP entries, held in fixed arrays (no heap:
/// Vec-backed tables made the harnesses run out of time under CBMC).  Harnesses preload 0..2
/// entries; an insert beyond CAP fails an assertion (never happens in the harnesses).
pub const CAP: usize = 3;

pub struct Table<'tx, K: Slot, V: Slot> {
  used: [bool; CAP],
  keys: [std::mem::MaybeUninit<K::Owned>; CAP],
  vals: [std::mem::MaybeUninit<V::Owned>; CAP],
  pub inserts: usize,
  pub removes: usize,
  _tx: PhantomData<&'tx ()>,
}

impl<'tx, K: Slot, V: Slot> Table<'tx, K, V> {
  pub fn new() -> Self {
    Self {
      used: [false; CAP],
      keys: [const { std::mem::MaybeUninit::uninit() }; CAP],
      vals: [const { std::mem::MaybeUninit::uninit() }; CAP],
      inserts: 0,
      removes: 0,
      _tx: PhantomData,
    }
  }

  fn position(&self, k: &K::Owned) -> Option<usize> {
    let mut i = 0;
    while i < CAP {
      if self.used[i] && unsafe { self.keys[i].assume_init_ref() } == k {
        return Some(i);
      }
      i += 1;
    }
    None
  }

  /// number of entries
  pub fn len(&self) -> usize {
    let mut n = 0;
    let mut i = 0;
    while i < CAP {
      if self.used[i] {
        n += 1;
      }
      i += 1;
    }
    n
  }

  pub fn is_empty(&self) -> bool {
    self.len() == 0
  }

  /// harness-side: preload / overwrite without counting as a write of the code under contract
  pub fn put(&mut self, k: K::Owned, v: V::Owned) {
    let i = match self.position(&k) {
      Some(i) => i,
      None => {
        let mut i = 0;
        while i < CAP && self.used[i] {
          i += 1;
        }
        assert!(i < CAP, "shim table capacity");
        i
      }
    };
    self.used[i] = true;
    self.keys[i] = std::mem::MaybeUninit::new(k);
    self.vals[i] = std::mem::MaybeUninit::new(v);
  }

  pub fn peek(&self, k: &K::Owned) -> Option<&V::Owned> {
    match self.position(k) {
      Some(i) => Some(unsafe { self.vals[i].assume_init_ref() }),
      None => None,
    }
  }

  pub fn get<'a>(&self, key: impl Borrow<K::SelfType<'a>>) -> Result<Option<AccessGuard<V>>, TableError>
  where
    K: 'a,
  {
    let k = K::own(key.borrow());
    Ok(match self.peek(&k) {
      Some(v) => Some(AccessGuard::new(v.clone())),
      None => None,
    })
  }

  pub fn insert<'k, 'v>(
    &mut self,
    key: impl Borrow<K::SelfType<'k>>,
    value: impl Borrow<V::SelfType<'v>>,
  ) -> Result<Option<AccessGuard<V>>, TableError>
  where
    K: 'k,
    V: 'v,
  {
    let k = K::own(key.borrow());
    let v = V::own(value.borrow());
    self.inserts += 1;
    match self.position(&k) {
      Some(i) => {
        let old = std::mem::replace(&mut self.vals[i], std::mem::MaybeUninit::new(v));
        Ok(Some(AccessGuard { value: old }))
      }
      None => {
        self.put(k, v);
        Ok(None)
      }
    }
  }

  pub fn remove<'a>(&mut self, key: impl Borrow<K::SelfType<'a>>) -> Result<Option<AccessGuard<V>>, TableError>
  where
    K: 'a,
  {
    let k = K::own(key.borrow());
    self.removes += 1;
    match self.position(&k) {
      Some(i) => {
        self.used[i] = false;
        let old = std::mem::replace(&mut self.vals[i], std::mem::MaybeUninit::uninit());
        Ok(Some(AccessGuard { value: old }))
      }
      None => Ok(None),
    }
  }
}

#[path = "/verif/contracts/support/hashmap_shim.rs"]
mod hashmap_shim;
pub use hashmap_shim::{Entry, HashMap};

/// SHIM for std::collections::HashSet (Settings::hidden): a list without duplicates in a fixed array
/// (capacity 4; exceeding it fails an assertion)
pub struct HashSet<T> {
  len: usize,
  items: [std::mem::MaybeUninit<T>; 4],
}

impl<T> Default for HashSet<T> {
  fn default() -> Self {
    Self { len: 0, items: [const { std::mem::MaybeUninit::uninit() }; 4] }
  }
}

impl<T> std::fmt::Debug for HashSet<T> {
  fn fmt(&self, f: &mut std::fmt::Formatter) -> std::fmt::Result {
    write!(f, "HashSet(len {})", self.len)
  }
}

impl<T> HashSet<T> {
  fn at(&self, i: usize) -> &T {
    unsafe { self.items[i].assume_init_ref() }
  }
  pub fn len(&self) -> usize {
    self.len
  }
  pub fn is_empty(&self) -> bool {
    self.len == 0
  }
}

impl<T: PartialEq> HashSet<T> {
  pub fn new() -> Self {
    Self::default()
  }
  pub fn contains(&self, v: &T) -> bool {
    let mut i = 0;
    while i < self.len {
      if self.at(i) == v {
        return true;
      }
      i += 1;
    }
    false
  }
  pub fn insert(&mut self, v: T) -> bool {
    if self.contains(&v) {
      false
    } else {
      assert!(self.len < 4, "shim HashSet capacity");
      self.items[self.len] = std::mem::MaybeUninit::new(v);
      self.len += 1;
      true
    }
  }
}

impl<T: Clone + PartialEq> Clone for HashSet<T> {
  fn clone(&self) -> Self {
    let mut s = Self::default();
    let mut i = 0;
    while i < self.len {
      s.insert(self.at(i).clone());
      i += 1;
    }
    s
  }
}

impl<T: PartialEq> PartialEq for HashSet<T> {
  fn eq(&self, other: &Self) -> bool {
    if self.len != other.len {
      return false;
    }
    let mut i = 0;
    while i < self.len {
      if !other.contains(self.at(i)) {
        return false;
      }
      i += 1;
    }
    true
  }
}

impl<T: PartialEq> FromIterator<T> for HashSet<T> {
  fn from_iter<I: IntoIterator<Item = T>>(iter: I) -> Self {
    let mut s = Self::new();
    for x in iter {
      s.insert(x);
    }
    s
  }
}

pub struct SetIter<'a, T> {
  set: &'a HashSet<T>,
  next: usize,
}

impl<'a, T> Iterator for SetIter<'a, T> {
  type Item = &'a T;
  fn next(&mut self) -> Option<&'a T> {
    if self.next < self.set.len {
      let i = self.next;
      self.next += 1;
      Some(self.set.at(i))
    } else {
      None
    }
  }
}

impl<'a, T> IntoIterator for &'a HashSet<T> {
  type Item = &'a T;
  type IntoIter = SetIter<'a, T>;
  fn into_iter(self) -> SetIter<'a, T> {
    SetIter { set: self, next: 0 }
  }
}

pub mod mpsc {
  use std::cell::Cell;

  /// SHIM for tokio::sync::mpsc::Sender: counts what was sent.  The payload is forgotten, not
  /// stored: Kani 0.68 aborts (internal compiler error in codegen_get_discriminant) on any read of the
  /// discriminant of ord's `Event` enum - its niche lives in a Vec capacity field - and that includes
  /// the drop glue of a stored event, so event CONTENTS cannot be inspected by a harness.
  pub struct Sender<T> {
    pub sent: Cell<usize>,
    _t: std::marker::PhantomData<T>,
  }

  #[derive(Debug)]
  pub struct SendError;

  impl std::fmt::Display for SendError {
    fn fmt(&self, f: &mut std::fmt::Formatter) -> std::fmt::Result {
      write!(f, "channel closed")
    }
  }

  impl std::error::Error for SendError {}

  impl<T> Sender<T> {
    pub fn new() -> Self {
      Self { sent: Cell::new(0), _t: std::marker::PhantomData }
    }
    pub fn blocking_send(&self, value: T) -> Result<(), SendError> {
      self.sent.set(self.sent.get() + 1);
      std::mem::forget(value);
      Ok(())
    }
  }
}

/// SHIM for bitcoincore_rpc::Client (never called by the functions under contract)
pub struct Client;
