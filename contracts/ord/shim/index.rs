// Substitute for src/index.rs (engine E2): declares the real child modules (copied byte-for-byte)
// and stands in for `struct Index` with the three option flags that the value-level code reads.
// Real items of src/index.rs that are under contract are pulled in verbatim by `//@extract`.
use {
  self::{
    entry::{
      Entry, HeaderValue, InscriptionEntry, InscriptionEntryValue, InscriptionIdValue,
      OutPointValue, RuneEntryValue, RuneIdValue, SatPointValue, SatRange, TxidValue,
    },
    event::Event,
    lot::Lot,
    utxo_entry::{ParsedUtxoEntry, UtxoEntry, UtxoEntryBuf},
  },
  super::*,
  crate::runes::MintError,
  bitcoin::block::Header,
};

pub use self::entry::RuneEntry;

pub(crate) mod entry;
pub(crate) mod event;
pub(crate) mod lot;
pub(crate) mod updater;
pub mod utxo_entry;

/// SHIM: the real `Index` holds a redb database, an RPC client and settings; the value-level code
/// under contract reads only these flags (constants for the lifetime of an index).
pub struct Index {
  pub(crate) index_addresses: bool,
  pub(crate) index_inscriptions: bool,
  pub(crate) index_runes: bool,
  pub(crate) index_sats: bool,
  pub(crate) index_transactions: bool,
}

//@extract src/index.rs :: enum Statistic

//@extract src/index.rs :: impl From<Statistic> for u64

crate::env::copy_slot!(RuneIdValue, RuneEntryValue, InscriptionIdValue);

impl Index {
  //@extract src/index.rs :: impl Index :: fn encode_rune_balance
  //@extract src/index.rs :: impl Index :: fn decode_rune_balance
}

#[cfg(any(kani, ordinals_ord_verif))]
#[path = "/verif/contracts/ord/index_contracts.rs"]
pub(crate) mod verif_contracts;
