// Substitute for src/inscriptions.rs (engine E2): the real child modules that are value-level.
use super::*;

use tag::Tag;

pub use self::inscription_id::InscriptionId;

pub(crate) mod inscription_id;
pub(crate) mod tag;

/// SHIM for src/inscriptions/inscription.rs: the real file pulls in brotli, ciborium, regex, media
/// and the properties codec; the compact-encoding accessors under contract (C27) are extracted
/// verbatim together with the real struct definition.
pub(crate) mod inscription {
  use super::*;

  //@extract src/inscriptions/inscription.rs :: struct Inscription

  impl Inscription {
    //@extract src/inscriptions/inscription.rs :: impl Inscription :: fn pointer_value
    //@extract src/inscriptions/inscription.rs :: impl Inscription :: fn delegate
    //@extract src/inscriptions/inscription.rs :: impl Inscription :: fn parents
    //@extract src/inscriptions/inscription.rs :: impl Inscription :: fn pointer
  }

  #[cfg(any(kani, ordinals_ord_verif))]
  #[path = "/verif/contracts/ord/inscription_contracts.rs"]
  pub(crate) mod verif_contracts;
}
