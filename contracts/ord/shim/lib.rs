// Substitute crate root for engine E2 (see tools/overlay_ord.py).  It supplies the names that the
// real files' `use super::*` would get from ord's own src/lib.rs prelude: the same external crates
// (same Cargo.lock), re-exported under the same names.  Nothing here is code under contract.
#![allow(unused_imports, dead_code, clippy::all, mismatched_lifetime_syntaxes)]
#![cfg_attr(kani, feature(stmt_expr_attributes, proc_macro_hygiene))]

use {
  self::{decimal::Decimal, into_u64::IntoU64, into_usize::IntoUsize},
  anyhow::{Context, Error, anyhow, bail, ensure},
  bitcoin::{
    Amount, Block, Network, OutPoint, Script, ScriptBuf, Sequence, Transaction, TxIn, TxOut, Txid,
    Witness,
    blockdata::constants::{DIFFCHANGE_INTERVAL, MAX_SCRIPT_ELEMENT_SIZE, SUBSIDY_HALVING_INTERVAL},
    consensus::{self, Decodable, Encodable},
    hashes::Hash,
    script,
  },
  ordinals::{
    Artifact, Charm, Edict, Epoch, Etching, Height, Pile, Rarity, Rune, RuneId, Runestone, Sat,
    SatPoint, SpacedRune, Terms, varint,
  },
  serde::{Deserialize, Deserializer, Serialize},
  serde_with::{DeserializeFromStr, SerializeDisplay},
  std::{
    cmp,
    collections::{BTreeMap, BTreeSet, HashSet},
    fmt::{self, Display, Formatter},
    mem,
    str::FromStr,
  },
};

pub use self::{
  fee_rate::FeeRate,
  index::{Index, RuneEntry},
  inscriptions::InscriptionId,
};

pub mod decimal;
pub(crate) mod env;
pub(crate) mod fee_rate;
pub mod index;
pub(crate) mod inscriptions;
mod into_u64;
mod into_usize;
pub mod runes;
pub(crate) mod settings;

type Result<T = (), E = Error> = std::result::Result<T, E>;

/// root of the verification overlay: kani shim + registry for native replay, shared spec functions
pub mod verif_contracts {
  #[cfg(not(kani))]
  #[path = "/verif/contracts/support/kani_shim.rs"]
  pub mod kani;

  #[path = "/verif/contracts/ord/varint_contract.rs"]
  pub mod varint_contract;

  #[cfg(not(kani))]
  #[path = "/verif/.work/e2/registry.rs"]
  pub mod registry;
}
