// Substitute for src/settings.rs (engine E2): `struct Settings`, `struct Options`, `Settings::or` and `Settings::from_options` - the function
// that implements "flag > environment > config file > default" when `Settings::merge` chains
// from_options(..).or(from_env(..)).or(config).or_defaults() - extracted from the real file.
// Dropped: everything that touches the process environment, the file system, clap or serde
// (load, merge, from_env, or_defaults, accessors); the serde derive on the struct and
// the clap derive on `Chain` (attributes filtered mechanically, recorded in the evidence).
use {
  super::*,
  crate::env::HashSet,
  std::path::PathBuf,
};

//@extract! src/chain.rs :: enum Chain

//@extract! src/subcommand.rs :: enum OutputFormat

//@extract! src/options.rs :: struct Options

//@extract! src/settings.rs :: struct Settings

impl Settings {
  //@extract src/settings.rs :: impl Settings :: fn or
  //@extract src/settings.rs :: impl Settings :: fn from_options
}

#[cfg(any(kani, ordinals_ord_verif))]
#[path = "/verif/contracts/ord/settings_contracts.rs"]
pub(crate) mod verif_contracts;
