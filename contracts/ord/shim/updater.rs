// Substitute for src/index/updater.rs (engine E2): hosts the kernel functions of the rune updater,
// extracted verbatim from src/index/updater/rune_updater.rs, against the environment shims of
// contracts/ord/shim/env.rs.  Extracted: mint, update, unallocated.  NOT extracted: etched, create_rune_entry and index_runes -
// all three read the discriminant of `ordinals::Artifact`, on which Kani 0.68 aborts with an internal
// compiler error (see contracts/ord/rune_updater_etching_contracts.rs.disabled) - and
// tx_commits_to_rune (RPC + script instruction iterator).
use {
  super::*,
  crate::env::Table,
};

// The per-transaction sat kernel (properties C01, C02): `struct Updater` and
// `Updater::index_transaction_sats`, extracted verbatim from src/index/updater.rs.
//@extract src/index/updater.rs :: struct Updater

impl Updater<'_> {
  //@extract src/index/updater.rs :: impl Updater<'_> :: fn index_transaction_sats
}

#[cfg(any(kani, ordinals_ord_verif))]
#[path = "/verif/contracts/ord/updater_contracts.rs"]
pub(crate) mod verif_contracts;

pub(crate) mod rune_updater {
  use {
    super::*,
    crate::env::{Client, HashMap, Table, mpsc},
  };

  //@extract src/index/updater/rune_updater.rs :: struct RuneUpdater

  impl RuneUpdater<'_, '_, '_> {
    //@extract src/index/updater/rune_updater.rs :: impl RuneUpdater<'_, '_, '_> :: fn update
    //@extract src/index/updater/rune_updater.rs :: impl RuneUpdater<'_, '_, '_> :: fn mint
    //@extract src/index/updater/rune_updater.rs :: impl RuneUpdater<'_, '_, '_> :: fn unallocated
  }

  #[cfg(any(kani, ordinals_ord_verif))]
  #[path = "/verif/contracts/ord/rune_updater_contracts.rs"]
  pub(crate) mod verif_contracts;
}

pub(crate) mod inscription_updater {
  use super::*;

  /// SHIM: the real InscriptionUpdater borrows a dozen redb tables; `calculate_sat` is an associated
  /// function that uses none of them and is extracted verbatim.
  pub(crate) struct InscriptionUpdater;

  impl InscriptionUpdater {
    //@extract src/index/updater/inscription_updater.rs :: impl InscriptionUpdater<'_, '_> :: fn calculate_sat
  }

  #[cfg(any(kani, ordinals_ord_verif))]
  #[path = "/verif/contracts/ord/inscription_updater_contracts.rs"]
  pub(crate) mod verif_contracts;
}
