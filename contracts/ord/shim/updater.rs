// Substitute for src/index/updater.rs (engine E2): hosts the kernel functions of the rune updater,
// extracted verbatim from src/index/updater/rune_updater.rs, against the environment shims of
// contracts/ord/shim/env.rs.  Dropped: index_runes (HashMap/Vec/sort-heavy allocation loop: does not
// terminate under CBMC) and tx_commits_to_rune (RPC + script instruction iterator), which is
// replaced by an assumed-contract shim method returning a harness-chosen boolean.
use super::*;

pub(crate) mod rune_updater {
  use {
    super::*,
    crate::env::{Client, HashMap, Table, mpsc},
  };

  //@extract src/index/updater/rune_updater.rs :: struct RuneUpdater

  impl RuneUpdater<'_, '_, '_> {
    //@extract src/index/updater/rune_updater.rs :: impl RuneUpdater<'_, '_, '_> :: fn update
    //@extract src/index/updater/rune_updater.rs :: impl RuneUpdater<'_, '_, '_> :: fn create_rune_entry
    //@extract src/index/updater/rune_updater.rs :: impl RuneUpdater<'_, '_, '_> :: fn etched
    //@extract src/index/updater/rune_updater.rs :: impl RuneUpdater<'_, '_, '_> :: fn mint
    //@extract src/index/updater/rune_updater.rs :: impl RuneUpdater<'_, '_, '_> :: fn unallocated
  }

  /// ghost: what the (unverified) commitment check answers in this harness
  pub(crate) static mut TX_COMMITS: bool = false;

  impl RuneUpdater<'_, '_, '_> {
    /// SHIM with an ASSUMED contract: the real function (RPC + tapscript scan) is not under
    /// contract; the harness chooses its answer, so `etched` is verified for both answers.
    fn tx_commits_to_rune(&self, _tx: &Transaction, _rune: Rune) -> Result<bool> {
      Ok(unsafe { TX_COMMITS })
    }
  }

  #[cfg(any(kani, ordinals_ord_verif))]
  #[path = "/verif/contracts/ord/rune_updater_contracts.rs"]
  pub(crate) mod verif_contracts;
}
