// Contracts for Updater::index_transaction_sats (src/index/updater.rs), extracted verbatim into
// the E2 shim: the first-in-first-out assignment of input sat ranges to outputs (properties C01,
// C02).  Environment: rare-sat table = finite-map shim; varint under its C26 contract (ghost log);
// Sat::common under its C29 contract (an arbitrary but recorded answer per call).
//
// STATUS (measured 2026-09-22): the harness compiles against the real text and the shims, but CBMC
// did not finish it in 20 minutes (cadical and kissat); tier `manual`: run by neither command and
// counted nowhere.  C01 / C02 stay not-applicable.
#![allow(unused_imports, dead_code, static_mut_refs)]
use super::*;
#[cfg(not(kani))]
use crate::verif_contracts::kani;
use crate::index::entry::{Entry, SatRange};
use crate::verif_contracts::varint_contract as vc;

// ghost log of Sat::common calls: (sat, answer)
static mut COMMON_N: usize = 0;
static mut COMMON_SAT: [u64; 8] = [0; 8];
static mut COMMON_ANS: [bool; 8] = [false; 8];

/// contract stub for Sat::common (C29 proves: common <=> rarity is Common <=> not the first sat of a
/// block): for this kernel only "a pure predicate of the sat" matters - same sat, same answer
pub fn contract_common(s: Sat) -> bool {
  unsafe {
    let mut i = 0;
    while i < COMMON_N {
      if COMMON_SAT[i] == s.0 {
        return COMMON_ANS[i];
      }
      i += 1;
    }
    assert!(COMMON_N < 8, "ghost log capacity");
    let a: bool = kani::any();
    COMMON_SAT[COMMON_N] = s.0;
    COMMON_ANS[COMMON_N] = a;
    COMMON_N += 1;
    a
  }
}

fn txout(value: u64) -> TxOut {
  TxOut { value: Amount::from_sat(value), script_pubkey: ScriptBuf::new() }
}

/// the k-th sat (0-based) of a concatenation of half-open ranges
fn sat_at(ranges: &[(u64, u64)], mut k: u64) -> Option<u64> {
  let mut i = 0;
  while i < ranges.len() {
    let size = ranges[i].1 - ranges[i].0;
    if k < size {
      return Some(ranges[i].0 + k);
    }
    k -= size;
    i += 1;
  }
  None
}

fn load_ranges(bytes: &[u8], out: &mut [(u64, u64); 4]) -> usize {
  let mut n = 0;
  let mut i = 0;
  while i + 11 <= bytes.len() {
    out[n] = SatRange::load(bytes[i..i + 11].try_into().unwrap());
    n += 1;
    i += 11;
  }
  n
}

/// Shape: one input with two sat ranges, two outputs; every range and both output values symbolic
/// (value of the outputs together at most the input value, as consensus guarantees).
///   * each output's stored ranges add up to its value, no empty range is stored;
///   * FIFO: for every position k below the total output value, the k-th sat of the input ranges is
///     the k-th sat of output 0's ranges followed by output 1's;
///   * what the outputs do not claim is appended to the leftover list (fees for the coinbase), in
///     order, and nothing else is.
//# props: C01, C02
//# tier: manual
//# kind: bounded(shape: 1 input x 2 sat ranges, 2 outputs; every range and value symbolic)
//# fns: index::updater::Updater::index_transaction_sats
//# assume: redb::Table is a finite map (shim); ordinals::varint under its C26 contract; Sat::common is a pure predicate of the sat (C29)
//# timeout: 1800
#[cfg_attr(kani, kani::proof)]
#[cfg_attr(kani, kani::unwind(6))]
#[cfg_attr(kani, kani::stub(ordinals::varint::encode_to_vec, vc::encode_to_vec))]
#[cfg_attr(kani, kani::stub(ordinals::varint::decode, vc::decode))]
#[cfg_attr(kani, kani::stub(ordinals::Sat::common, contract_common))]
#[cfg_attr(kani, kani::stub(std::backtrace::Backtrace::capture, vc::backtrace_disabled))]
pub fn c01_fifo_1x2_to_2() {
  vc::reset();
  unsafe { COMMON_N = 0 };
  let index = Index { index_addresses: false, index_inscriptions: false, index_runes: false, index_sats: true, index_transactions: false };
  let r: [(u64, u64); 2] = kani::any();
  let mut input = [0u8; 22];
  let mut i = 0;
  while i < 2 {
    let (a, b) = r[i];
    kani::assume(a < b && b <= Sat::SUPPLY && b - a <= 50 * 100_000_000);
    input[i * 11..i * 11 + 11].copy_from_slice(&(a, b).store());
    i += 1;
  }
  let total = (r[0].1 - r[0].0) + (r[1].1 - r[1].0);
  let v: [u64; 2] = kani::any();
  kani::assume(v[0] <= total && v[1] <= total - v[0]);
  let tx = Transaction {
    version: bitcoin::transaction::Version(2),
    lock_time: bitcoin::absolute::LockTime::ZERO,
    input: Vec::new(),
    output: vec![txout(v[0]), txout(v[1])],
  };
  let txid = Txid::all_zeros();
  let mut sat_to_satpoint: Table<u64, &SatPointValue> = Table::new();
  let mut outs = [UtxoEntryBuf::new(), UtxoEntryBuf::new()];
  let inputs: [&[u8]; 1] = [&input];
  let mut leftover: Vec<u8> = Vec::with_capacity(32);
  let (mut written, mut traversed) = (0u64, 0u64);
  let mut u = Updater { height: 0, index: &index, outputs_cached: 0, outputs_traversed: 0, sat_ranges_since_flush: 0 };
  let ok = match u.index_transaction_sats(&tx, txid, &mut sat_to_satpoint, &mut outs, &inputs, &mut leftover, &mut written, &mut traversed) {
    Ok(()) => true,
    Err(e) => {
      std::mem::forget(e);
      false
    }
  };
  assert!(ok, "C16.index_transaction_sats.never_errors");
  assert!(traversed == 2, "C02.fifo.every_output_traversed");
  // read the outputs back through the real parser
  let mut all = [(0u64, 0u64); 8];
  let mut n_all = 0;
  let mut j = 0;
  while j < 2 {
    let e = outs[j].as_ref();
    // each output entry holds exactly one varint (the range count) - bind it to this buffer
    vc::bind(j, j + 1, <&UtxoEntry as redb::Value>::as_bytes(&e));
    let p = e.parse(&index);
    let mut rs = [(0u64, 0u64); 4];
    let n = load_ranges(p.sat_ranges(), &mut rs);
    let mut sum = 0u64;
    let mut t = 0;
    while t < n {
      assert!(rs[t].0 < rs[t].1, "C01.fifo.no_empty_range_stored");
      sum += rs[t].1 - rs[t].0;
      all[n_all] = rs[t];
      n_all += 1;
      t += 1;
    }
    assert!(sum == v[j], "C02.fifo.output_ranges_add_up_to_its_value");
    j += 1;
  }
  // leftovers
  let mut ls = [(0u64, 0u64); 4];
  let n_left = load_ranges(&leftover, &mut ls);
  let mut t = 0;
  let mut left_sum = 0u64;
  while t < n_left {
    all[n_all] = ls[t];
    n_all += 1;
    left_sum += ls[t].1 - ls[t].0;
    t += 1;
  }
  assert!(left_sum == total - v[0] - v[1], "C02.fifo.unclaimed_sats_go_to_the_leftover_list");
  // positional FIFO over outputs ++ leftovers
  let k: u64 = kani::any();
  kani::assume(k < total);
  assert!(sat_at(&all[..n_all], k) == sat_at(&r, k), "C01.fifo.kth_sat_in_is_kth_sat_out");
  assert!(written as usize == n_all - n_left, "C02.fifo.ranges_written_counter");
  std::mem::forget(tx);
  std::mem::forget(outs);
  std::mem::forget(leftover);
}
