// Contracts for src/index/utxo_entry.rs (properties C35, C01/C02/C04 support, C16).
// Child module of the real `index::utxo_entry` (private fields `bytes`, `vec` are visible).
// varint::{encode_to_vec, decode} enter under the contract proved by C26
// (contracts/ord/varint_contract.rs): callers are checked against the contract, not the body.
#![allow(unused_imports, dead_code)]
use super::*;
#[cfg(not(kani))]
use crate::verif_contracts::kani;
use crate::verif_contracts::varint_contract as vc;

fn index_with(sats: bool, addresses: bool, inscriptions: bool) -> Index {
  Index {
    index_addresses: addresses,
    index_inscriptions: inscriptions,
    index_runes: kani::any(),
    index_sats: sats,
    index_transactions: kani::any(),
  }
}

const MAX_RANGES: usize = 2;
const MAX_SCRIPT: usize = 3;

struct Written {
  ranges: [u8; MAX_RANGES * 11],
  nranges: usize,
  value: u64,
  script: [u8; MAX_SCRIPT],
  nscript: usize,
  ninscriptions: usize,
  seq: [u32; 2],
  off: [u64; 2],
}

/// build an entry with the real builder, in the order the indexer uses: the SHAPE (which sections,
/// how many ranges / script bytes / inscriptions) is concrete per harness, every byte and value in
/// it is symbolic (DESIGN 3.9: shape decisions enumerated, values symbolic)
fn build(index: &Index, nranges: usize, nscript: usize, ninscriptions: usize) -> (UtxoEntryBuf, Written) {
  let w = Written {
    ranges: kani::any(),
    nranges,
    value: kani::any(),
    script: kani::any(),
    nscript,
    ninscriptions: if index.index_inscriptions { ninscriptions } else { 0 },
    seq: kani::any(),
    off: kani::any(),
  };
  let mut buf = UtxoEntryBuf::new();
  if index.index_sats {
    buf.push_sat_ranges(&w.ranges[..w.nranges * 11], index);
  } else {
    buf.push_value(w.value, index);
  }
  if index.index_addresses {
    buf.push_script_pubkey(&w.script[..w.nscript], index);
  }
  if index.index_inscriptions {
    let mut i = 0;
    while i < w.ninscriptions {
      buf.push_inscription(w.seq[i], w.off[i], index);
      i += 1;
    }
  }
  (buf, w)
}

fn range_value(r: &[u8], i: usize) -> u64 {
  let (a, b) = SatRange::load(r[i * 11..i * 11 + 11].try_into().unwrap());
  b - a
}

/// An entry built with the real builder parses back to exactly what was written.
fn round_trip_shape(sats: bool, addresses: bool, inscriptions: bool, nranges: usize, nscript: usize, ninsc: usize) {
  vc::reset();
  let index = index_with(sats, addresses, inscriptions);
  let (buf, w) = build(&index, nranges, nscript, ninsc);
  let entry: &UtxoEntry = buf.as_ref();
  vc::bind(0, vc::logged(), &entry.bytes);
  let parsed = entry.parse(&index);
  if index.index_sats {
    let r = parsed.sat_ranges();
    assert!(r.len() == w.nranges * 11, "C35.utxo_entry.sat_range_count_kept");
    if w.nranges > 0 {
      let i: usize = kani::any();
      kani::assume(i < w.nranges * 11);
      assert!(r[i] == w.ranges[i], "C35.utxo_entry.sat_range_bytes_kept");
    }
    let mut sum: u64 = 0;
    let mut i = 0;
    while i < w.nranges {
      sum += range_value(&w.ranges, i);
      i += 1;
    }
    assert!(parsed.total_value() == sum, "C35.utxo_entry.total_value_is_sum_of_range_sizes");
  } else {
    assert!(parsed.total_value() == w.value, "C35.utxo_entry.value_kept");
  }
  if index.index_addresses {
    let s = parsed.script_pubkey();
    assert!(s.len() == w.nscript, "C35.utxo_entry.script_length_kept");
    if w.nscript > 0 {
      let i: usize = kani::any();
      kani::assume(i < w.nscript);
      assert!(s[i] == w.script[i], "C35.utxo_entry.script_bytes_kept");
    }
  }
  if index.index_inscriptions {
    let v = parsed.parse_inscriptions();
    assert!(v.len() == w.ninscriptions, "C35.utxo_entry.inscription_count_kept");
    if w.ninscriptions >= 1 {
      assert!(v[0] == (w.seq[0], w.off[0]), "C35.utxo_entry.first_inscription_kept");
    }
    if w.ninscriptions >= 2 {
      assert!(v[1] == (w.seq[1], w.off[1]), "C35.utxo_entry.second_inscription_kept");
    }
  }
}

macro_rules! round_trip_harness {
  ($name:ident, $s:expr, $a:expr, $i:expr, $nr:expr, $ns:expr, $ni:expr) => {
    #[cfg_attr(kani, kani::proof)]
    #[cfg_attr(kani, kani::unwind(13))]
    #[cfg_attr(kani, kani::stub(ordinals::varint::encode_to_vec, vc::encode_to_vec))]
    #[cfg_attr(kani, kani::stub(ordinals::varint::decode, vc::decode))]
    pub fn $name() {
      round_trip_shape($s, $a, $i, $nr, $ns, $ni);
    }
  };
}

// Builder -> parser round trips for the sat-range / value / script sections, one harness per shape;
// every byte and value symbolic.  (Shapes that chain builder and parser through inscription records
// did not terminate under CBMC; the inscription list is covered by the two-sided contracts
// c35_push_inscription_layout / c35_parse_inscriptions_layout below instead.)
//# props: C35
//# kind: bounded(shape: no optional index: value only; symbolic value)
//# fns: index::utxo_entry::UtxoEntryBuf::push_value, index::utxo_entry::UtxoEntry::parse, index::utxo_entry::ParsedUtxoEntry::total_value
//# assume: ordinals::varint::{encode_to_vec, decode} satisfy the contract proved by the C26 harnesses
//# timeout: 600
round_trip_harness!(c35_utxo_entry_rt_value_only, false, false, false, 0, 0, 0);

//# props: C35
//# kind: bounded(shape: sat + address index, 1 range, 3 script bytes)
//# fns: index::utxo_entry::UtxoEntryBuf::push_sat_ranges, index::utxo_entry::UtxoEntryBuf::push_script_pubkey, index::utxo_entry::UtxoEntry::parse
//# assume: ordinals::varint::{encode_to_vec, decode} satisfy the contract proved by the C26 harnesses
//# timeout: 600
round_trip_harness!(c35_utxo_entry_rt_sa_13, true, true, false, 1, 3, 0);

//# props: C35
//# kind: bounded(shape: sat index only, 2 ranges)
//# fns: index::utxo_entry::UtxoEntryBuf::push_sat_ranges, index::utxo_entry::UtxoEntry::parse, index::utxo_entry::ParsedUtxoEntry::total_value
//# assume: ordinals::varint::{encode_to_vec, decode} satisfy the contract proved by the C26 harnesses
//# timeout: 600
round_trip_harness!(c35_utxo_entry_rt_s_2, true, false, false, 2, 0, 0);

//# props: C35
//# kind: bounded(shape: address index only, 1 script byte)
//# fns: index::utxo_entry::UtxoEntryBuf::push_value, index::utxo_entry::UtxoEntryBuf::push_script_pubkey, index::utxo_entry::UtxoEntry::parse
//# assume: ordinals::varint::{encode_to_vec, decode} satisfy the contract proved by the C26 harnesses
//# timeout: 600
round_trip_harness!(c35_utxo_entry_rt_a_1, false, true, false, 0, 1, 0);

/// merged(a, b) keeps every range and every inscription of both, a's first.  Stated on the bytes:
/// for entries a = (count na, na ranges, inscription bytes) and b likewise, the merged buffer is
/// (count na + nb, a's ranges, b's ranges, a's inscription bytes, b's inscription bytes) - so, by the
/// parser contracts (c35_utxo_entry_rt_*, c35_parse_inscriptions_layout), it parses to the
/// concatenated lists.  Inputs are raw symbolic byte arrays whose header varints are declared
/// (parser-side ghost), so the harness does not depend on the builder.
fn merged_layout(addresses: bool, inscriptions: bool, na: usize, nb: usize, ia: usize, ib: usize) {
  vc::reset();
  let index = index_with(true, addresses, inscriptions);
  let abytes: [u8; 48] = kani::any();
  let bbytes: [u8; 48] = kani::any();
  // a: count, ranges, [empty script], inscription bytes
  let mut alen = vc::declare(0, na as u128, &abytes);
  let a_r0 = alen;
  alen += na * 11;
  if addresses {
    alen += vc::declare(alen, 0, &abytes);
  }
  let a_i0 = alen;
  if inscriptions {
    alen += ia;
  }
  let mut blen = vc::declare(0, nb as u128, &bbytes);
  let b_r0 = blen;
  blen += nb * 11;
  if addresses {
    blen += vc::declare(blen, 0, &bbytes);
  }
  let b_i0 = blen;
  if inscriptions {
    blen += ib;
  }
  let k0 = vc::logged();
  let ea = UtxoEntry::ref_cast(&abytes[..alen]);
  let eb = UtxoEntry::ref_cast(&bbytes[..blen]);
  let m = UtxoEntryBuf::merged(ea, eb, &index);
  // what merged wrote: the count, then (with the address index) an empty script length
  assert!(vc::logged() == k0 + if addresses { 2 } else { 1 }, "C35.merged.varints_written");
  let (c_at, c_len, c_val) = vc::entry(k0);
  assert!(c_at == 0 && c_val == (na + nb) as u128, "C35.merged.range_count_is_sum");
  let mut at = c_len;
  let v = &m.vec;
  let i: usize = kani::any();
  if na + nb > 0 {
    kani::assume(i < (na + nb) * 11);
    assert!(v[at + i] == if i < na * 11 { abytes[a_r0 + i] } else { bbytes[b_r0 + i - na * 11] }, "C35.merged.ranges_are_a_then_b");
  }
  at += (na + nb) * 11;
  if addresses {
    let (s_at, s_len, s_val) = vc::entry(k0 + 1);
    assert!(s_at == at && s_val == 0, "C35.merged.script_empty");
    at += s_len;
  }
  if inscriptions {
    assert!(v.len() == at + ia + ib, "C35.merged.inscription_bytes_length_is_sum");
    let j: usize = kani::any();
    if ia + ib > 0 {
      kani::assume(j < ia + ib);
      assert!(v[at + j] == if j < ia { abytes[a_i0 + j] } else { bbytes[b_i0 + j - ia] }, "C35.merged.inscriptions_are_a_then_b");
    }
  } else {
    assert!(v.len() == at, "C35.merged.nothing_else_written");
  }
  assert!(m.state == State::Valid, "C35.merged.result_is_complete_entry");
}

macro_rules! merged_harness {
  ($name:ident, $a:expr, $i:expr, $na:expr, $nb:expr, $ia:expr, $ib:expr) => {
    #[cfg_attr(kani, kani::proof)]
    #[cfg_attr(kani, kani::unwind(13))]
    #[cfg_attr(kani, kani::stub(ordinals::varint::encode_to_vec, vc::encode_to_vec))]
    #[cfg_attr(kani, kani::stub(ordinals::varint::decode, vc::decode))]
    pub fn $name() {
      merged_layout($a, $i, $na, $nb, $ia, $ib);
    }
  };
}

//# props: C35, C04
//# kind: bounded(shape: sat + inscription index; a = 1 range + 6 inscription bytes, b = 2 ranges + 5 inscription bytes; all bytes symbolic)
//# fns: index::utxo_entry::UtxoEntryBuf::merged, index::utxo_entry::UtxoEntry::parse
//# assume: ordinals::varint::{encode_to_vec, decode} satisfy the contract proved by the C26 harnesses
//# timeout: 600
merged_harness!(c35_utxo_entry_merged_si_1_2, false, true, 1, 2, 6, 5);

//# props: C35, C04
//# kind: bounded(shape: all three indexes; a = 2 ranges + no inscription bytes, b = 0 ranges + 7 inscription bytes)
//# fns: index::utxo_entry::UtxoEntryBuf::merged, index::utxo_entry::UtxoEntry::parse
//# assume: ordinals::varint::{encode_to_vec, decode} satisfy the contract proved by the C26 harnesses
//# timeout: 600
merged_harness!(c35_utxo_entry_merged_sai_2_0, true, true, 2, 0, 0, 7);

//# props: C35, C04
//# kind: bounded(shape: sat + inscription index, NO ranges on either side (the unbound pseudo-output); a = 6 inscription bytes, b = 5 inscription bytes)
//# fns: index::utxo_entry::UtxoEntryBuf::merged, index::utxo_entry::UtxoEntry::parse
//# assume: ordinals::varint::{encode_to_vec, decode} satisfy the contract proved by the C26 harnesses
//# timeout: 600
merged_harness!(c35_utxo_entry_merged_si_0_0, false, true, 0, 0, 6, 5);

//# props: C35
//# kind: bounded(shape: sat index only; a = 1 range, b = 1 range)
//# fns: index::utxo_entry::UtxoEntryBuf::merged, index::utxo_entry::UtxoEntry::parse
//# assume: ordinals::varint::{encode_to_vec, decode} satisfy the contract proved by the C26 harnesses
//# timeout: 600
merged_harness!(c35_utxo_entry_merged_s_1_1, false, false, 1, 1, 0, 0);

/// empty(index) parses to no ranges / value 0, empty script, no inscriptions
fn empty_shape(sats: bool, addresses: bool, inscriptions: bool) {
  vc::reset();
  let index = index_with(sats, addresses, inscriptions);
  let e = UtxoEntryBuf::empty(&index);
  let entry: &UtxoEntry = e.as_ref();
  vc::bind(0, vc::logged(), &entry.bytes);
  let p = entry.parse(&index);
  assert!(p.total_value() == 0, "C35.empty.value_zero");
  if index.index_sats {
    assert!(p.sat_ranges().is_empty(), "C35.empty.no_ranges");
  }
  if index.index_addresses {
    assert!(p.script_pubkey().is_empty(), "C35.empty.no_script");
  }
  if index.index_inscriptions {
    assert!(p.parse_inscriptions().is_empty(), "C35.empty.no_inscriptions");
  }
}

//# props: C35
//# kind: complete (all 8 option combinations, one call each)
//# fns: index::utxo_entry::UtxoEntryBuf::empty
//# assume: ordinals::varint::{encode_to_vec, decode} satisfy the contract proved by the C26 harnesses
//# timeout: 600
#[cfg_attr(kani, kani::proof)]
#[cfg_attr(kani, kani::unwind(13))]
#[cfg_attr(kani, kani::stub(ordinals::varint::encode_to_vec, vc::encode_to_vec))]
#[cfg_attr(kani, kani::stub(ordinals::varint::decode, vc::decode))]
pub fn c35_utxo_entry_empty() {
  empty_shape(false, false, false);
  empty_shape(false, false, true);
  empty_shape(false, true, false);
  empty_shape(false, true, true);
  empty_shape(true, false, false);
  empty_shape(true, false, true);
  empty_shape(true, true, false);
  empty_shape(true, true, true);
}

/// builder side of the inscription list: push_inscription appends the 4 little-endian bytes of the
/// sequence number followed by the varint of the offset, and nothing else
//# props: C35, C04
//# kind: complete (every sequence number and offset; appended to a 2-byte symbolic prefix)
//# fns: index::utxo_entry::UtxoEntryBuf::push_inscription
//# assume: ordinals::varint::encode_to_vec satisfies the contract proved by the C26 harnesses
//# timeout: 600
#[cfg_attr(kani, kani::proof)]
#[cfg_attr(kani, kani::unwind(13))]
#[cfg_attr(kani, kani::stub(ordinals::varint::encode_to_vec, vc::encode_to_vec))]
pub fn c35_push_inscription_layout() {
  vc::reset();
  let index = index_with(kani::any(), kani::any(), true);
  let p: [u8; 2] = kani::any();
  let mut v = Vec::with_capacity(40);
  v.push(p[0]);
  v.push(p[1]);
  let mut buf = UtxoEntryBuf { vec: v, state: State::Valid };
  let seq: u32 = kani::any();
  let off: u64 = kani::any();
  buf.push_inscription(seq, off, &index);
  assert!(vc::logged() == 1, "C35.push_inscription.one_varint");
  let (at, l, val) = vc::entry(0);
  assert!(at == 6 && val == u128::from(off), "C35.push_inscription.offset_varint_follows_sequence_number");
  assert!(buf.vec.len() == 6 + l, "C35.push_inscription.appends_exactly_4_plus_varint");
  assert!(buf.vec[0] == p[0] && buf.vec[1] == p[1], "C35.push_inscription.prefix_unchanged");
  assert!(buf.vec[2..6] == seq.to_le_bytes(), "C35.push_inscription.sequence_number_little_endian");
  assert!(buf.state == State::Valid, "C35.push_inscription.state_stays_valid");
}

/// parser side: a buffer laid out as (4 bytes, varint o1, 4 bytes, varint o2) parses to
/// [(seq1, o1), (seq2, o2)]; with one record to [(seq1, o1)]; empty to [].
//# props: C35, C04
//# kind: bounded(0, 1 or 2 records; every sequence number and offset symbolic - the loop handles each record identically)
//# fns: index::utxo_entry::ParsedUtxoEntry::parse_inscriptions
//# assume: ordinals::varint::decode satisfies the contract proved by the C26 harnesses
//# timeout: 600
#[cfg_attr(kani, kani::proof)]
#[cfg_attr(kani, kani::unwind(5))]
#[cfg_attr(kani, kani::stub(ordinals::varint::decode, vc::decode))]
pub fn c35_parse_inscriptions_layout() {
  vc::reset();
  let bytes: [u8; 32] = kani::any();
  let records: u8 = kani::any();
  kani::assume(records <= 2);
  let o1: u64 = kani::any();
  let o2: u64 = kani::any();
  let mut n = 0;
  if records >= 1 {
    n = 4 + vc::declare(4, u128::from(o1), &bytes);
  }
  if records >= 2 {
    let at = n + 4;
    n = at + vc::declare(at, u128::from(o2), &bytes);
  }
  let p = ParsedUtxoEntry { sats: Sats::Value(0), script_pubkey: None, inscriptions: Some(&bytes[..n]) };
  let v = p.parse_inscriptions();
  assert!(v.len() == records as usize, "C35.parse_inscriptions.one_entry_per_record");
  if records >= 1 {
    assert!(v[0] == (u32::from_le_bytes([bytes[0], bytes[1], bytes[2], bytes[3]]), o1), "C35.parse_inscriptions.first_record");
  }
  if records >= 2 {
    let at = 4 + vc::minimal_len(u128::from(o1));
    assert!(v[1] == (u32::from_le_bytes([bytes[at], bytes[at + 1], bytes[at + 2], bytes[at + 3]]), o2), "C35.parse_inscriptions.second_record");
  }
}
