// The contract of `ordinals::varint::{encode_to_vec, decode}` as proved by C26 (harnesses
// c26_encode_canonical, c26_encode_to_vec_frame, c26_decode_exact, c26_decode_ignores_suffix,
// c26_round_trip), restated as Kani stubs so that callers in the `ord` crate are verified against
// the CONTRACT, not the body (three chained varints behind a growing Vec do not terminate in CBMC).
//
//   encode_to_vec(n, v):  v' = v ++ e  where |e| = minimal_len(n) in 1..=19, and decode(e ++ rest) =
//                         Ok((n, |e|)) for every rest.   The stub appends |e| unconstrained bytes and
//                         remembers (offset, |e|, n) in a ghost log.
//   decode(buf):          Ok((n, l)) with 1 <= l <= min(19, |buf|), or Err.  If buf starts where a logged
//                         encoding lives (the harness binds log entries to the finished buffer with
//                         `bind`: "entries [from, to) were appended to the Vec whose bytes now start at
//                         p"), the bytes there are that encoding followed by whatever came later
//                         (Vec::extend never rewrites earlier bytes), so the result is exactly
//                         Ok((n, l)) of that entry.  Otherwise any result the contract allows.
//                         A wrong `bind` in a harness would make the assumption unsound; each
//                         harness binds a buffer right after the builder calls that filled it.
//
// Ghost state is plain `static mut` (Kani harnesses are single-threaded).  Under the native replay
// build no stub is applied: the real varint code runs.
#![allow(dead_code, static_mut_refs)]
#[cfg(not(kani))]
use crate::verif_contracts::kani;
use ordinals::varint;

pub const LOG_CAP: usize = 12;
static mut LOG_N: usize = 0;
static mut LOG_OFF: [usize; LOG_CAP] = [0; LOG_CAP];
static mut LOG_LEN: [usize; LOG_CAP] = [0; LOG_CAP];
static mut LOG_VAL: [u128; LOG_CAP] = [0; LOG_CAP];
static mut LOG_BASE: [usize; LOG_CAP] = [0; LOG_CAP];

pub fn minimal_len(n: u128) -> usize {
  let bits = (128 - n.leading_zeros()) as usize;
  if bits == 0 { 1 } else { (bits + 6) / 7 }
}

/// forget everything (start of a harness)
pub fn reset() {
  unsafe {
    LOG_N = 0;
  }
}

/// number of encodings appended so far
pub fn logged() -> usize {
  unsafe { LOG_N }
}

/// (offset in its Vec, length, value) of the k-th appended encoding
pub fn entry(k: usize) -> (usize, usize, u128) {
  unsafe { (LOG_OFF[k], LOG_LEN[k], LOG_VAL[k]) }
}

/// log entries [from, to) were appended to the buffer whose bytes now start at `bytes`
pub fn bind(from: usize, to: usize, bytes: &[u8]) {
  let mut k = from;
  while k < to {
    unsafe { LOG_BASE[k] = bytes.as_ptr() as usize };
    k += 1;
  }
}

/// ghost declaration for parser-side harnesses: "the bytes of `bytes` at [off, off + minimal_len(n))
/// are an encoding of n".  Sound only for unconstrained (symbolic) bytes - such bytes exist.
pub fn declare(off: usize, n: u128, bytes: &[u8]) -> usize {
  let l = minimal_len(n);
  unsafe {
    assert!(LOG_N < LOG_CAP, "ghost log capacity");
    LOG_OFF[LOG_N] = off;
    LOG_LEN[LOG_N] = l;
    LOG_VAL[LOG_N] = n;
    LOG_BASE[LOG_N] = bytes.as_ptr() as usize;
    LOG_N += 1;
  }
  l
}

pub fn encode_to_vec(n: u128, v: &mut Vec<u8>) {
  let l = minimal_len(n);
  let bytes: [u8; 19] = kani::any();
  unsafe {
    assert!(LOG_N < LOG_CAP, "ghost log capacity");
    LOG_OFF[LOG_N] = v.len();
    LOG_LEN[LOG_N] = l;
    LOG_VAL[LOG_N] = n;
    LOG_BASE[LOG_N] = 0;
    LOG_N += 1;
  }
  v.extend_from_slice(&bytes[..l]);
}

/// same contract, different memory behaviour: append 19 unconstrained bytes with concrete-size
/// operations and cut the length back to |e| (u8 has no drop glue: truncate only sets the length)
pub fn encode_to_vec_fixed(n: u128, v: &mut Vec<u8>) {
  let l = minimal_len(n);
  let bytes: [u8; 19] = kani::any();
  unsafe {
    assert!(LOG_N < LOG_CAP, "ghost log capacity");
    LOG_OFF[LOG_N] = v.len();
    LOG_LEN[LOG_N] = l;
    LOG_VAL[LOG_N] = n;
    LOG_BASE[LOG_N] = 0;
    LOG_N += 1;
  }
  let old = v.len();
  v.extend_from_slice(&bytes);
  v.truncate(old + l);
}

pub fn decode(buf: &[u8]) -> Result<(u128, usize), varint::Error> {
  let p = buf.as_ptr() as usize;
  unsafe {
    let mut k = 0;
    while k < LOG_N {
      if LOG_BASE[k] != 0 && p == LOG_BASE[k] + LOG_OFF[k] && buf.len() >= LOG_LEN[k] {
        return Ok((LOG_VAL[k], LOG_LEN[k]));
      }
      k += 1;
    }
  }
  any_decode_result(buf.len())
}

/// any result the contract of decode allows for a buffer of this length
pub fn any_decode_result(len: usize) -> Result<(u128, usize), varint::Error> {
  let kind: u8 = kani::any();
  match kind {
    0 => {
      let n: u128 = kani::any();
      let l: usize = kani::any();
      kani::assume(l >= 1 && l <= 19 && l <= len);
      kani::assume(l >= minimal_len(n));
      Ok((n, l))
    }
    1 => Err(varint::Error::Overlong),
    2 => Err(varint::Error::Overflow),
    _ => Err(varint::Error::Unterminated),
  }
}

pub fn backtrace_disabled() -> std::backtrace::Backtrace {
  std::backtrace::Backtrace::disabled()
}

// ---- std string searches by their naive definitions (std's word-at-a-time versions make every
// loop unwind to the bound under CBMC because of pointer-alignment nondeterminism)

/// core::slice::memchr::memchr_aligned
pub fn naive_memchr_aligned(x: u8, text: &[u8]) -> Option<usize> {
  let mut i = 0;
  while i < text.len() {
    if text[i] == x {
      return Some(i);
    }
    i += 1;
  }
  None
}

/// core::str::count::do_count_chars: the number of bytes that are not UTF-8 continuation bytes
pub fn naive_count_chars(s: &str) -> usize {
  let b = s.as_bytes();
  let mut n = 0;
  let mut i = 0;
  while i < b.len() {
    if (b[i] as i8) >= -0x40 {
      n += 1;
    }
    i += 1;
  }
  n
}
