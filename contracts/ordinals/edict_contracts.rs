// Contracts for crates/ordinals/src/edict.rs (C25)
#![allow(unused_imports, dead_code)]
use super::*;
#[cfg(not(kani))]
use crate::verif_contracts::kani;
use bitcoin::{absolute::LockTime, transaction::Version, Amount, TxOut};

pub(crate) fn tx_with_outputs(n: usize) -> Transaction {
  let mut output = Vec::new();
  let mut i = 0;
  while i < n {
    output.push(TxOut { value: Amount::from_sat(0), script_pubkey: ScriptBuf::new() });
    i += 1;
  }
  Transaction { version: Version(2), lock_time: LockTime::ZERO, input: Vec::new(), output }
}

//# props: C25, C09
//# kind: complete in the integers (every id, amount, output as u128); bounded(transactions with 0..=3 outputs - only the count is read)
//# fns: Edict::from_integers
#[cfg_attr(kani, kani::proof)]
#[cfg_attr(kani, kani::unwind(5))]
pub fn c25_edict_from_integers() {
  let n: usize = kani::any();
  kani::assume(n <= 3);
  let tx = tx_with_outputs(n);
  let id = RuneId { block: kani::any(), tx: kani::any() };
  let amount: u128 = kani::any();
  let output: u128 = kani::any();
  match Edict::from_integers(&tx, id, amount, output) {
    Some(e) => {
      assert!(e.id == id && e.amount == amount && e.output as u128 == output, "C25.edict.fields_preserved");
      assert!(output <= n as u128, "C25.edict.output_at_most_output_count");
    }
    None => assert!(output > n as u128, "C25.edict.refused_only_when_output_beyond_count"),
  }
}
