// Contracts for crates/ordinals/src/etching.rs (C25, C08: supply never wraps)
#![allow(unused_imports, dead_code)]
use super::*;
#[cfg(not(kani))]
use crate::verif_contracts::kani;

static mut UF_SET: bool = false;
static mut UF_A: u128 = 0;
static mut UF_B: u128 = 0;
static mut UF_R: Option<u128> = None;

/// 128-bit multiplication as an uninterpreted function (same arguments => same result): CBMC cannot
/// equate two 128x128 multipliers, and the contract of Etching::supply does not depend on what
/// multiplication is, only on which operands reach it.
pub fn uf_checked_mul(a: u128, b: u128) -> Option<u128> {
  unsafe {
    if !(UF_SET && UF_A == a && UF_B == b) {
      UF_SET = true;
      UF_A = a;
      UF_B = b;
      UF_R = kani::any();
    }
    UF_R
  }
}

/// supply = premine + cap * amount with absent fields read as 0; None exactly on u128 overflow.
//# props: C25, C08
//# kind: complete (every premine, cap, amount; presence of terms symbolic)
//# fns: Etching::supply
//# assume: u128::checked_mul is treated as an uninterpreted function (stub uf_checked_mul): the harness proves which operands are multiplied and how the result is combined, not the multiplier circuit
#[cfg_attr(kani, kani::proof)]
#[cfg_attr(kani, kani::stub(u128::checked_mul, uf_checked_mul))]
pub fn c25_etching_supply() {
  let premine: Option<u128> = kani::any();
  let has_terms: bool = kani::any();
  let cap: Option<u128> = kani::any();
  let amount: Option<u128> = kani::any();
  let e = Etching {
    premine,
    terms: if has_terms { Some(Terms { cap, amount, height: (None, None), offset: (None, None) }) } else { None },
    ..Default::default()
  };
  let p = premine.unwrap_or(0);
  let c = if has_terms { cap.unwrap_or(0) } else { 0 };
  let a = if has_terms { amount.unwrap_or(0) } else { 0 };
  // the spec uses the checked primitives of the machine type (exact: None iff the true value exceeds u128::MAX)
  let want = match c.checked_mul(a) {
    Some(m) => p.checked_add(m),
    None => None,
  };
  assert!(e.supply() == want, "C25.supply.is_premine_plus_cap_times_amount_or_none_on_overflow");
}
