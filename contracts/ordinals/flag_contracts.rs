// Contracts for crates/ordinals/src/runestone/flag.rs (C25)
#![allow(unused_imports, dead_code)]
use super::*;
#[cfg(not(kani))]
use crate::verif_contracts::kani;

//# props: C25
//# kind: complete (every u128 flags word, all four flags)
//# fns: Flag::mask, Flag::take, Flag::set
#[cfg_attr(kani, kani::proof)]
pub fn c25_flag_take_set() {
  let w: u128 = kani::any();
  let which: u8 = kani::any();
  kani::assume(which < 4);
  let (flag, bit) = match which {
    0 => (Flag::Etching, 0u32),
    1 => (Flag::Terms, 1),
    2 => (Flag::Turbo, 2),
    _ => (Flag::Cenotaph, 127),
  };
  let (flag2, _) = match which { 0 => (Flag::Etching, 0u32), 1 => (Flag::Terms, 1), 2 => (Flag::Turbo, 2), _ => (Flag::Cenotaph, 127) };
  let (flag3, _) = match which { 0 => (Flag::Etching, 0u32), 1 => (Flag::Terms, 1), 2 => (Flag::Turbo, 2), _ => (Flag::Cenotaph, 127) };
  assert!(flag.mask() == 1u128 << bit, "C25.flag.mask_is_single_bit");
  let mut x = w;
  let was = flag2.take(&mut x);
  assert!(was == (w >> bit & 1 == 1), "C25.flag.take_reports_bit");
  assert!(x == w & !(1u128 << bit), "C25.flag.take_clears_only_that_bit");
  let mut y = w;
  flag3.set(&mut y);
  assert!(y == w | (1u128 << bit), "C25.flag.set_sets_only_that_bit");
}
