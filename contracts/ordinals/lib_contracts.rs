// Root of the verification overlay inside the real `ordinals` crate (engine E1).
// Under Kani nothing but shared spec functions lives here; under the native replay build
// (`--cfg ordinals_ord_verif`) it also provides the `kani` shim and the harness registry.
#![allow(unused_imports, dead_code)]
use super::*;

#[cfg(not(kani))]
#[path = "/verif/contracts/support/kani_shim.rs"]
pub mod kani;

#[path = "/verif/contracts/ordinals/spec.rs"]
pub mod spec;

#[cfg(not(kani))]
#[path = "/verif/.work/e1/registry.rs"]
pub mod registry;
