// Contracts for crates/ordinals/src/rune.rs (C32, C33, parts of C11/C31).
// Compiled as a child module of the real `rune` module (sees the private constants).
#![allow(unused_imports, dead_code)]
use super::*;
#[cfg(not(kani))]
use crate::verif_contracts::kani;
use crate::verif_contracts::spec;

/// first name with i+1 letters in modified base-26: 26 + 26^2 + ... + 26^i
pub(crate) fn step(i: u32) -> u128 {
  let mut s: u128 = 0;
  let mut k = 0;
  while k < i {
    s = 26 * (s + 1);
    k += 1;
  }
  s
}

const NETWORKS: [Network; 5] = [
  Network::Bitcoin,
  Network::Testnet,
  Network::Testnet4,
  Network::Signet,
  Network::Regtest,
];

fn spec_start(network: Network) -> u32 {
  match network {
    Network::Bitcoin => 840_000,
    Network::Testnet => 2_520_000,
    _ => 0,
  }
}

/// The table the Verus unit `rune_schedule` assumes (axiom_steps), checked on the real constant,
/// together with the other schedule constants and the real bitcoin::Network arms.
//# props: C33, C32
//# kind: complete (all 28 table entries, all five network variants; concrete evaluation)
//# fns: Rune::STEPS, Rune::UNLOCKED, Rune::UNLOCK_INTERVAL, Rune::RESERVED, Rune::first_rune_height
#[cfg_attr(kani, kani::proof)]
#[cfg_attr(kani, kani::unwind(30))]
pub fn c33_steps_table() {
  assert!(Rune::STEPS.len() == 28, "C33.steps.length");
  let mut i = 0;
  while i < 28 {
    assert!(Rune::STEPS[i] == step(i as u32), "C33.steps.entry_is_first_name_of_next_length");
    i += 1;
  }
  assert!(Rune::UNLOCKED == 12 && Rune::UNLOCK_INTERVAL == 17_500, "C33.steps.constants");
  assert!(Rune::RESERVED == Rune::STEPS[26], "C32.reserved_is_first_27_letter_name");
  let mut n = 0;
  while n < 5 {
    assert!(Rune::first_rune_height(NETWORKS[n]) == spec_start(NETWORKS[n]), "C33.first_rune_height_per_network");
    n += 1;
  }
}

fn spec_letters(r: u128) -> usize {
  let mut i = 1;
  while i <= 12 {
    if r < step(i as u32) {
      return i;
    }
    i += 1;
  }
  13
}

/// reported unlock height, transcribed from the Verus spec function spec_unlock (rune_schedule.rs.tmpl)
fn spec_unlock(network: Network, r: u128) -> Option<u32> {
  if r >= step(26) {
    return None;
  }
  if r >= step(12) {
    return Some(0);
  }
  let i = spec_letters(r);
  let s = step(i as u32);
  let e = step(i as u32 - 1);
  Some(spec_start(network) + (12 - i as u32) * 17_500 + (((s - r) * 17_500 - 1) / (s - e)) as u32)
}

fn unlock_height_case(letters: usize) {
  // every rune whose name has `letters` letters (13 stands for 13..=26 letters, 27 for reserved)
  let r: u128 = kani::any();
  if letters <= 12 {
    kani::assume(r >= step(letters as u32 - 1) && r < step(letters as u32));
  } else if letters == 13 {
    kani::assume(r >= step(12) && r < step(26));
  } else {
    kani::assume(r >= step(26));
  }
  let n: usize = kani::any();
  kani::assume(n < 5);
  let network = NETWORKS[n];
  let got = Rune(r).unlock_height(network);
  let want = spec_unlock(network, r);
  match (got, want) {
    (None, None) => {}
    (Some(h), Some(w)) => assert!(h.0 == w, "C33.unlock_height_matches_schedule_formula"),
    _ => assert!(false, "C33.unlock_height_none_iff_reserved"),
  }
  assert!(Rune(r).is_reserved() == (r >= step(26)), "C32.is_reserved_iff_27_letters_or_more");
}

//# props: C33
//# kind: complete (every rune with 1 letters, all five networks; c33_unlock_l01..l13,l27 together cover every u128)
//# fns: Rune::unlock_height, Rune::is_reserved
#[cfg_attr(kani, kani::proof)]
#[cfg_attr(kani, kani::unwind(30))]
pub fn c33_unlock_l01() {
  unlock_height_case(1);
}

//# props: C33
//# kind: complete (every rune with 2 letters, all five networks; c33_unlock_l01..l13,l27 together cover every u128)
//# fns: Rune::unlock_height, Rune::is_reserved
#[cfg_attr(kani, kani::proof)]
#[cfg_attr(kani, kani::unwind(30))]
pub fn c33_unlock_l02() {
  unlock_height_case(2);
}

//# props: C33
//# kind: complete (every rune with 3 letters, all five networks; c33_unlock_l01..l13,l27 together cover every u128)
//# fns: Rune::unlock_height, Rune::is_reserved
#[cfg_attr(kani, kani::proof)]
#[cfg_attr(kani, kani::unwind(30))]
pub fn c33_unlock_l03() {
  unlock_height_case(3);
}

//# props: C33
//# kind: complete (every rune with 4 letters, all five networks; c33_unlock_l01..l13,l27 together cover every u128)
//# fns: Rune::unlock_height, Rune::is_reserved
#[cfg_attr(kani, kani::proof)]
#[cfg_attr(kani, kani::unwind(30))]
pub fn c33_unlock_l04() {
  unlock_height_case(4);
}

//# props: C33
//# kind: complete (every rune with 5 letters, all five networks; c33_unlock_l01..l13,l27 together cover every u128)
//# fns: Rune::unlock_height, Rune::is_reserved
#[cfg_attr(kani, kani::proof)]
#[cfg_attr(kani, kani::unwind(30))]
pub fn c33_unlock_l05() {
  unlock_height_case(5);
}

//# props: C33
//# kind: complete (every rune with 6 letters, all five networks; c33_unlock_l01..l13,l27 together cover every u128)
//# fns: Rune::unlock_height, Rune::is_reserved
#[cfg_attr(kani, kani::proof)]
#[cfg_attr(kani, kani::unwind(30))]
pub fn c33_unlock_l06() {
  unlock_height_case(6);
}

//# props: C33
//# kind: complete (every rune with 7 letters, all five networks; c33_unlock_l01..l13,l27 together cover every u128)
//# fns: Rune::unlock_height, Rune::is_reserved
#[cfg_attr(kani, kani::proof)]
#[cfg_attr(kani, kani::unwind(30))]
pub fn c33_unlock_l07() {
  unlock_height_case(7);
}

//# props: C33
//# kind: complete (every rune with 8 letters, all five networks; c33_unlock_l01..l13,l27 together cover every u128)
//# fns: Rune::unlock_height, Rune::is_reserved
#[cfg_attr(kani, kani::proof)]
#[cfg_attr(kani, kani::unwind(30))]
pub fn c33_unlock_l08() {
  unlock_height_case(8);
}

//# props: C33
//# kind: complete (every rune with 9 letters, all five networks; c33_unlock_l01..l13,l27 together cover every u128)
//# fns: Rune::unlock_height, Rune::is_reserved
#[cfg_attr(kani, kani::proof)]
#[cfg_attr(kani, kani::unwind(30))]
pub fn c33_unlock_l09() {
  unlock_height_case(9);
}

//# props: C33
//# kind: complete (every rune with 10 letters, all five networks; c33_unlock_l01..l13,l27 together cover every u128)
//# fns: Rune::unlock_height, Rune::is_reserved
#[cfg_attr(kani, kani::proof)]
#[cfg_attr(kani, kani::unwind(30))]
pub fn c33_unlock_l10() {
  unlock_height_case(10);
}

//# props: C33
//# kind: complete (every rune with 11 letters, all five networks; c33_unlock_l01..l13,l27 together cover every u128)
//# fns: Rune::unlock_height, Rune::is_reserved
#[cfg_attr(kani, kani::proof)]
#[cfg_attr(kani, kani::unwind(30))]
pub fn c33_unlock_l11() {
  unlock_height_case(11);
}

//# props: C33
//# kind: complete (every rune with 12 letters, all five networks; c33_unlock_l01..l13,l27 together cover every u128)
//# fns: Rune::unlock_height, Rune::is_reserved
#[cfg_attr(kani, kani::proof)]
#[cfg_attr(kani, kani::unwind(30))]
pub fn c33_unlock_l12() {
  unlock_height_case(12);
}

//# props: C33
//# kind: complete (every rune with 13 to 26 letters, all five networks; c33_unlock_l01..l13,l27 together cover every u128)
//# fns: Rune::unlock_height, Rune::is_reserved
#[cfg_attr(kani, kani::proof)]
#[cfg_attr(kani, kani::unwind(30))]
pub fn c33_unlock_l13() {
  unlock_height_case(13);
}

//# props: C33
//# kind: complete (every rune with 27 or more (reserved) letters, all five networks; c33_unlock_l01..l13,l27 together cover every u128)
//# fns: Rune::unlock_height, Rune::is_reserved
#[cfg_attr(kani, kani::proof)]
#[cfg_attr(kani, kani::unwind(30))]
pub fn c33_unlock_l27() {
  unlock_height_case(27);
}

/// counterexample finder for the Verus unit rune_schedule (tier cex: only run when it fails)
//# props: C33
//# kind: bounded(counterexample finder)
//# tier: cex
//# timeout: 120
#[cfg_attr(kani, kani::proof)]
#[cfg_attr(kani, kani::unwind(30))]
pub fn c33_min_cex() {
  let h: u32 = kani::any();
  kani::assume(h < u32::MAX);
  let n: usize = kani::any();
  kani::assume(n < 5);
  let network = NETWORKS[n];
  let a = Rune::minimum_at_height(network, Height(h));
  let b = Rune::minimum_at_height(network, Height(h + 1));
  assert!(b.0 <= a.0, "C33.minimum_never_increases");
  let start = spec_start(network);
  if h + 1 < start {
    assert!(a.0 == step(12), "C33.thirteen_letters_before_first_rune_block");
  }
  if h as u64 + 1 >= start as u64 + 210_000 {
    assert!(a.0 == 0, "C33.everything_unlocked_after_schedule");
  }
}
