// Contracts for crates/ordinals/src/rune.rs (C32, C33, parts of C11/C31).
// Compiled as a child module of the real `rune` module (sees the private constants).
#![allow(unused_imports, dead_code)]
use super::*;
#[cfg(not(kani))]
use crate::verif_contracts::kani;
use crate::verif_contracts::spec;

/// first name with i+1 letters in modified base-26: 26 + 26^2 + ... + 26^i
pub(crate) fn step(i: u32) -> u128 {
  let mut s: u128 = 0;
  let mut k = 0;
  while k < i {
    s = 26 * (s + 1);
    k += 1;
  }
  s
}

const NETWORKS: [Network; 5] = [
  Network::Bitcoin,
  Network::Testnet,
  Network::Testnet4,
  Network::Signet,
  Network::Regtest,
];

fn spec_start(network: Network) -> u32 {
  match network {
    Network::Bitcoin => 840_000,
    Network::Testnet => 2_520_000,
    _ => 0,
  }
}

/// The table the Verus unit `rune_schedule` assumes (axiom_steps), checked on the real constant,
/// together with the other schedule constants and the real bitcoin::Network arms.
//# props: C33, C32
//# kind: complete (all 28 table entries, all five network variants; concrete evaluation)
//# fns: Rune::STEPS, Rune::UNLOCKED, Rune::UNLOCK_INTERVAL, Rune::RESERVED, Rune::first_rune_height
#[cfg_attr(kani, kani::proof)]
#[cfg_attr(kani, kani::unwind(30))]
pub fn c33_steps_table() {
  assert!(Rune::STEPS.len() == 28, "C33.steps.length");
  let mut i = 0;
  while i < 28 {
    assert!(Rune::STEPS[i] == step(i as u32), "C33.steps.entry_is_first_name_of_next_length");
    i += 1;
  }
  assert!(Rune::UNLOCKED == 12 && Rune::UNLOCK_INTERVAL == 17_500, "C33.steps.constants");
  assert!(Rune::RESERVED == Rune::STEPS[26], "C32.reserved_is_first_27_letter_name");
  let mut n = 0;
  while n < 5 {
    assert!(Rune::first_rune_height(NETWORKS[n]) == spec_start(NETWORKS[n]), "C33.first_rune_height_per_network");
    n += 1;
  }
}

fn spec_letters(r: u128) -> usize {
  let mut i = 1;
  while i <= 12 {
    if r < step(i as u32) {
      return i;
    }
    i += 1;
  }
  13
}

/// reported unlock height, transcribed from the Verus spec function spec_unlock (rune_schedule.rs.tmpl)
fn spec_unlock(network: Network, r: u128) -> Option<u32> {
  if r >= step(26) {
    return None;
  }
  if r >= step(12) {
    return Some(0);
  }
  let i = spec_letters(r);
  let s = step(i as u32);
  let e = step(i as u32 - 1);
  Some(spec_start(network) + (12 - i as u32) * 17_500 + (((s - r) * 17_500 - 1) / (s - e)) as u32)
}

fn unlock_height_case(letters: usize) {
  // every rune whose name has `letters` letters (13 stands for 13..=26 letters, 27 for reserved)
  let r: u128 = kani::any();
  if letters <= 12 {
    kani::assume(r >= step(letters as u32 - 1) && r < step(letters as u32));
  } else if letters == 13 {
    kani::assume(r >= step(12) && r < step(26));
  } else {
    kani::assume(r >= step(26));
  }
  let n: usize = kani::any();
  kani::assume(n < 5);
  let network = NETWORKS[n];
  let got = Rune(r).unlock_height(network);
  let want = spec_unlock(network, r);
  match (got, want) {
    (None, None) => {}
    (Some(h), Some(w)) => assert!(h.0 == w, "C33.unlock_height_matches_schedule_formula"),
    _ => assert!(false, "C33.unlock_height_none_iff_reserved"),
  }
  assert!(Rune(r).is_reserved() == (r >= step(26)), "C32.is_reserved_iff_27_letters_or_more");
}

//# props: C33
//# kind: complete (every rune with 1 letters, all five networks; c33_unlock_l01..l13,l27 together cover every u128)
//# fns: Rune::unlock_height, Rune::is_reserved
#[cfg_attr(kani, kani::proof)]
#[cfg_attr(kani, kani::unwind(30))]
pub fn c33_unlock_l01() {
  unlock_height_case(1);
}

//# props: C33
//# kind: complete (every rune with 2 letters, all five networks; c33_unlock_l01..l13,l27 together cover every u128)
//# fns: Rune::unlock_height, Rune::is_reserved
#[cfg_attr(kani, kani::proof)]
#[cfg_attr(kani, kani::unwind(30))]
pub fn c33_unlock_l02() {
  unlock_height_case(2);
}

//# props: C33
//# kind: complete (every rune with 3 letters, all five networks; c33_unlock_l01..l13,l27 together cover every u128)
//# fns: Rune::unlock_height, Rune::is_reserved
#[cfg_attr(kani, kani::proof)]
#[cfg_attr(kani, kani::unwind(30))]
pub fn c33_unlock_l03() {
  unlock_height_case(3);
}

//# props: C33
//# kind: complete (every rune with 4 letters, all five networks; c33_unlock_l01..l13,l27 together cover every u128)
//# fns: Rune::unlock_height, Rune::is_reserved
#[cfg_attr(kani, kani::proof)]
#[cfg_attr(kani, kani::unwind(30))]
pub fn c33_unlock_l04() {
  unlock_height_case(4);
}

//# props: C33
//# kind: complete (every rune with 5 letters, all five networks; c33_unlock_l01..l13,l27 together cover every u128)
//# fns: Rune::unlock_height, Rune::is_reserved
#[cfg_attr(kani, kani::proof)]
#[cfg_attr(kani, kani::unwind(30))]
pub fn c33_unlock_l05() {
  unlock_height_case(5);
}

//# props: C33
//# kind: complete (every rune with 6 letters, all five networks; c33_unlock_l01..l13,l27 together cover every u128)
//# fns: Rune::unlock_height, Rune::is_reserved
#[cfg_attr(kani, kani::proof)]
#[cfg_attr(kani, kani::unwind(30))]
pub fn c33_unlock_l06() {
  unlock_height_case(6);
}

//# props: C33
//# kind: complete (every rune with 7 letters, all five networks; c33_unlock_l01..l13,l27 together cover every u128)
//# fns: Rune::unlock_height, Rune::is_reserved
#[cfg_attr(kani, kani::proof)]
#[cfg_attr(kani, kani::unwind(30))]
pub fn c33_unlock_l07() {
  unlock_height_case(7);
}

//# props: C33
//# kind: complete (every rune with 8 letters, all five networks; c33_unlock_l01..l13,l27 together cover every u128)
//# fns: Rune::unlock_height, Rune::is_reserved
#[cfg_attr(kani, kani::proof)]
#[cfg_attr(kani, kani::unwind(30))]
pub fn c33_unlock_l08() {
  unlock_height_case(8);
}

//# props: C33
//# kind: complete (every rune with 9 letters, all five networks; c33_unlock_l01..l13,l27 together cover every u128)
//# fns: Rune::unlock_height, Rune::is_reserved
#[cfg_attr(kani, kani::proof)]
#[cfg_attr(kani, kani::unwind(30))]
pub fn c33_unlock_l09() {
  unlock_height_case(9);
}

//# props: C33
//# kind: complete (every rune with 10 letters, all five networks; c33_unlock_l01..l13,l27 together cover every u128)
//# fns: Rune::unlock_height, Rune::is_reserved
#[cfg_attr(kani, kani::proof)]
#[cfg_attr(kani, kani::unwind(30))]
pub fn c33_unlock_l10() {
  unlock_height_case(10);
}

//# props: C33
//# kind: complete (every rune with 11 letters, all five networks; c33_unlock_l01..l13,l27 together cover every u128)
//# fns: Rune::unlock_height, Rune::is_reserved
#[cfg_attr(kani, kani::proof)]
#[cfg_attr(kani, kani::unwind(30))]
pub fn c33_unlock_l11() {
  unlock_height_case(11);
}

//# props: C33
//# kind: complete (every rune with 12 letters, all five networks; c33_unlock_l01..l13,l27 together cover every u128)
//# fns: Rune::unlock_height, Rune::is_reserved
#[cfg_attr(kani, kani::proof)]
#[cfg_attr(kani, kani::unwind(30))]
pub fn c33_unlock_l12() {
  unlock_height_case(12);
}

//# props: C33
//# kind: complete (every rune with 13 to 26 letters, all five networks; c33_unlock_l01..l13,l27 together cover every u128)
//# fns: Rune::unlock_height, Rune::is_reserved
#[cfg_attr(kani, kani::proof)]
#[cfg_attr(kani, kani::unwind(30))]
pub fn c33_unlock_l13() {
  unlock_height_case(13);
}

//# props: C33
//# kind: complete (every rune with 27 or more (reserved) letters, all five networks; c33_unlock_l01..l13,l27 together cover every u128)
//# fns: Rune::unlock_height, Rune::is_reserved
#[cfg_attr(kani, kani::proof)]
#[cfg_attr(kani, kani::unwind(30))]
pub fn c33_unlock_l27() {
  unlock_height_case(27);
}

/// counterexample finder for the Verus unit rune_schedule (tier cex: only run when it fails)
//# props: C33
//# kind: bounded(counterexample finder)
//# tier: cex
//# timeout: 120
#[cfg_attr(kani, kani::proof)]
#[cfg_attr(kani, kani::unwind(30))]
pub fn c33_min_cex() {
  let h: u32 = kani::any();
  kani::assume(h < u32::MAX);
  let n: usize = kani::any();
  kani::assume(n < 5);
  let network = NETWORKS[n];
  let a = Rune::minimum_at_height(network, Height(h));
  let b = Rune::minimum_at_height(network, Height(h + 1));
  assert!(b.0 <= a.0, "C33.minimum_never_increases");
  let start = spec_start(network);
  if h + 1 < start {
    assert!(a.0 == step(12), "C33.thirteen_letters_before_first_rune_block");
  }
  if h as u64 + 1 >= start as u64 + 210_000 {
    assert!(a.0 == 0, "C33.everything_unlocked_after_schedule");
  }
}

// ------------------------------------------------------------------------------------------ C32

/// commitment == little-endian bytes without trailing zero bytes
//# props: C32, C11
//# kind: complete (every u128; loop bounded by the 16 bytes of the operand, unwinding assertion)
//# fns: Rune::commitment
#[cfg_attr(kani, kani::proof)]
#[cfg_attr(kani, kani::unwind(18))]
pub fn c32_commitment() {
  let n: u128 = kani::any();
  let c = Rune(n).commitment();
  let le = n.to_le_bytes();
  let len = c.len();
  assert!(len <= 16, "C32.commitment.at_most_16_bytes");
  let mut i = 0;
  while i < 16 {
    if i < len {
      assert!(c[i] == le[i], "C32.commitment.is_little_endian_prefix");
    } else {
      assert!(le[i] == 0, "C32.commitment.only_zero_bytes_dropped");
    }
    i += 1;
  }
  assert!(len == 0 || c[len - 1] != 0, "C32.commitment.no_trailing_zero_byte");
  kani::cover!(len == 16, "16-byte commitment");
  kani::cover!(len == 0, "empty commitment (rune 0)");
}

/// the reserved names are exactly those at or above Rune::RESERVED (which c33_steps_table shows to
/// be the value of the first 27-letter name)
//# props: C32
//# kind: complete (every u128)
//# fns: Rune::is_reserved
#[cfg_attr(kani, kani::proof)]
pub fn c32_is_reserved_exact() {
  let n: u128 = kani::any();
  assert!(Rune(n).is_reserved() == (n >= 6402364363415443603228541259936211926u128), "C32.is_reserved_iff_at_or_above_first_27_letter_name");
  assert!(Rune::RESERVED == 6402364363415443603228541259936211926u128, "C32.reserved_constant");
}

/// reserved(block, tx) never panics, lands in the reserved range and is injective
//# props: C32, C11
//# kind: complete (every pair of (u64 block, u32 tx))
//# fns: Rune::reserved, Rune::is_reserved
#[cfg_attr(kani, kani::proof)]
pub fn c32_reserved_injective() {
  let (b1, t1): (u64, u32) = (kani::any(), kani::any());
  let (b2, t2): (u64, u32) = (kani::any(), kani::any());
  let r1 = Rune::reserved(b1, t1);
  let r2 = Rune::reserved(b2, t2);
  assert!(r1.is_reserved() && r2.is_reserved(), "C32.reserved.in_reserved_range");
  assert!((r1 == r2) == (b1 == b2 && t1 == t2), "C32.reserved.injective");
  assert!(r1.0 - Rune::RESERVED == ((b1 as u128) << 32 | t1 as u128), "C32.reserved.encodes_block_and_tx");
}

/// modified base-26 value of a letter string: "A"=0 .. "Z"=25, "AA"=26 ...
fn b26_value(letters: &[u8]) -> Option<u128> {
  let mut x: u128 = 0;
  let mut i = 0;
  while i < letters.len() {
    if i > 0 {
      x = x.checked_add(1)?;
    }
    x = x.checked_mul(26)?;
    x = x.checked_add((letters[i] - b'A') as u128)?;
    i += 1;
  }
  Some(x)
}

fn from_str_len(len: usize) {
  let raw: [u8; 4] = kani::any();
  let mut buf = [b'A'; 4];
  let mut i = 0;
  while i < len {
    kani::assume(raw[i] >= b'A' && raw[i] <= b'Z');
    buf[i] = raw[i];
    i += 1;
  }
  let s = core::str::from_utf8(&buf[..len]).unwrap();
  let got = Rune::from_str(s);
  assert!(got == Ok(Rune(b26_value(&buf[..len]).unwrap())), "C32.from_str.value_is_modified_base26");
}

//# props: C32, C31
//# kind: bounded(names of 1..=3 letters, every letter symbolic)
//# fns: Rune::from_str
#[cfg_attr(kani, kani::proof)]
#[cfg_attr(kani, kani::unwind(6))]
pub fn c32_from_str_short_names() {
  let len: usize = kani::any();
  kani::assume(len >= 1 && len <= 3);
  from_str_len(len);
}

//# props: C32, C31
//# kind: bounded(names of exactly 6 letters, every letter symbolic)
//# fns: Rune::from_str
#[cfg_attr(kani, kani::proof)]
#[cfg_attr(kani, kani::unwind(9))]
pub fn c32_from_str_six_letters() {
  let raw: [u8; 6] = kani::any();
  let mut i = 0;
  while i < 6 {
    kani::assume(raw[i] >= b'A' && raw[i] <= b'Z');
    i += 1;
  }
  let s = core::str::from_utf8(&raw).unwrap();
  let got = Rune::from_str(s);
  assert!(got == Ok(Rune(b26_value(&raw).unwrap())), "C32.from_str.value_is_modified_base26");
}

/// names and integers correspond one-to-one only if NOTHING but the letters A..Z is accepted: a
/// two-character string "<letter><c>" with c ranging over every Unicode scalar value parses iff c is
/// an ASCII capital letter, and then to the base-26 value; any other character is
/// Error::Character(c) (strengthened after sub-agent seed C32-2: validation after narrowing the
/// char to u8 accepted U+0141, U+0441, ...).
//# props: C32, C31
//# kind: bounded(two-character strings: one symbolic letter followed by one symbolic char over all of Unicode)
//# fns: Rune::from_str
//# tier: thorough
//# timeout: 600
#[cfg_attr(kani, kani::proof)]
#[cfg_attr(kani, kani::unwind(8))]
pub fn c32_from_str_rejects_non_letters() {
  let a: u8 = kani::any();
  kani::assume(a >= b'A' && a <= b'Z');
  let c: char = kani::any();
  let mut s = String::with_capacity(8);
  s.push(a as char);
  s.push(c);
  let got = Rune::from_str(&s);
  if c >= 'A' && c <= 'Z' {
    assert!(got == Ok(Rune(b26_value(&[a, c as u8]).unwrap())), "C32.from_str.value_is_modified_base26");
  } else {
    assert!(got == Err(Error::Character(c)), "C32.from_str.only_ascii_capitals_are_letters");
  }
  kani::cover!(c as u32 == 0x141, "U+0141 (code point mod 256 is 'A')");
}

/// print -> parse at the machine-integer boundaries: Display and FromStr are loops over 128-bit
/// arithmetic; a change that narrows an intermediate (u64 fast paths, u32 counters) shows at the
/// width boundaries.  Concrete values, so symbolic execution is exact.  (Added after sub-agent seed
/// C32-1: a 64-bit fast path in Display overflowed exactly at 2^64 - 1.)
/// STATUS: tier manual - even with concrete values CBMC did not finish a single one of these in 10
/// minutes (core::fmt machinery); they are run by neither command and counted nowhere, and seed
/// C32-1 stays missed.
fn display_round_trip(n: u128) {
  let r = Rune(n);
  let s = r.to_string();
  assert!(!s.is_empty(), "C32.display.name_is_not_empty");
  let back = Rune::from_str(&s);
  assert!(back == Ok(r), "C32.display.name_parses_back_to_the_same_rune");
}

macro_rules! display_harness {
  ($name:ident, $($n:expr),*) => {
    #[cfg_attr(kani, kani::proof)]
    #[cfg_attr(kani, kani::unwind(40))]
    pub fn $name() {
      $( display_round_trip($n); )*
    }
  };
}

//# props: C32
//# kind: bounded(concrete values 0, 25, 26, 2^8-1, 2^8, 2^16-1, 2^16)
//# fns: Rune::fmt, Rune::from_str
//# tier: manual
//# timeout: 600
display_harness!(c32_display_round_trip_small_boundaries, 0, 25, 26, 255, 256, 65535, 65536);

//# props: C32
//# kind: bounded(concrete values 2^32-1, 2^32, 2^64-1, 2^64)
//# fns: Rune::fmt, Rune::from_str
//# tier: manual
//# timeout: 600
display_harness!(c32_display_round_trip_word_boundaries, (1u128 << 32) - 1, 1u128 << 32, (1u128 << 64) - 1, 1u128 << 64);

//# props: C32
//# kind: bounded(concrete values u128::MAX - 1 and u128::MAX)
//# fns: Rune::fmt, Rune::from_str
//# tier: manual
//# timeout: 600
display_harness!(c32_display_round_trip_max, u128::MAX - 1, u128::MAX);

/// the range boundary: 28-letter names around u128::MAX's name, last two letters symbolic.
/// "BCGDENLQRQWDSLRUGSNLBTMFIJAV" is u128::MAX; anything above is Error::Range, never a wrapped value.
//# props: C32, C31
//# kind: bounded(28-letter names sharing the first 26 letters of u128::MAX's name, last two letters symbolic)
//# fns: Rune::from_str
//# tier: manual
//# timeout: 900
#[cfg_attr(kani, kani::proof)]
#[cfg_attr(kani, kani::unwind(31))]
pub fn c32_from_str_range_boundary() {
  let mut buf = *b"BCGDENLQRQWDSLRUGSNLBTMFIJAV";
  let a: u8 = kani::any();
  let b: u8 = kani::any();
  kani::assume(a >= b'A' && a <= b'Z' && b >= b'A' && b <= b'Z');
  buf[26] = a;
  buf[27] = b;
  let s = core::str::from_utf8(&buf).unwrap();
  let got = Rune::from_str(s);
  match b26_value(&buf) {
    Some(v) => assert!(got == Ok(Rune(v)), "C32.from_str.value_is_modified_base26"),
    None => assert!(got == Err(Error::Range), "C32.from_str.out_of_range_is_error_not_wrapped"),
  }
  kani::cover!(got == Ok(Rune(u128::MAX)), "u128::MAX parses");
  kani::cover!(got == Err(Error::Range), "range error reachable");
}

/// Display is the inverse: printing then parsing returns the same rune; digits are modified base-26
//# props: C32
//# kind: bounded(runes below 26: one-letter names; the Display path through String/chars().nth() exhausts memory beyond that)
//# fns: Rune::fmt (Display), Rune::from_str
//# tier: manual
//# timeout: 900
#[cfg_attr(kani, kani::proof)]
#[cfg_attr(kani, kani::unwind(28))]
pub fn c32_display_round_trip_short() {
  let n: u128 = kani::any();
  kani::assume(n < 26);
  let s = Rune(n).to_string();
  let bytes = s.as_bytes();
  assert!(bytes.len() >= 1 && bytes.len() <= 3, "C32.display.length");
  assert!(b26_value(bytes) == Some(n), "C32.display.is_modified_base26");
  assert!(Rune::from_str(&s) == Ok(Rune(n)), "C32.display_then_parse_is_identity");
}

//# props: C32
//# kind: complete (the single special-cased value)
//# fns: Rune::fmt (Display), Rune::from_str
//# tier: manual
//# timeout: 600
#[cfg_attr(kani, kani::proof)]
#[cfg_attr(kani, kani::unwind(31))]
pub fn c32_display_u128_max() {
  let s = Rune(u128::MAX).to_string();
  assert!(s.as_bytes() == b"BCGDENLQRQWDSLRUGSNLBTMFIJAV", "C32.display.u128_max_name");
  assert!(Rune::from_str(&s) == Ok(Rune(u128::MAX)), "C32.display_then_parse_is_identity");
}
