// Contracts for crates/ordinals/src/rune_id.rs (C25: delta encoding of edict ids).
#![allow(unused_imports, dead_code)]
use super::*;
#[cfg(not(kani))]
use crate::verif_contracts::kani;

fn valid(id: RuneId) -> bool {
  !(id.block == 0 && id.tx > 0)
}

/// new: exactly the ids with block == 0 && tx > 0 are refused
//# props: C25
//# kind: complete (every (u64, u32))
//# fns: RuneId::new
#[cfg_attr(kani, kani::proof)]
pub fn c25_rune_id_new() {
  let (b, t): (u64, u32) = (kani::any(), kani::any());
  match RuneId::new(b, t) {
    Some(id) => assert!(id.block == b && id.tx == t && valid(id), "C25.rune_id.new_returns_same_fields"),
    None => assert!(b == 0 && t > 0, "C25.rune_id.new_refuses_only_block0_txpos"),
  }
}

/// delta / next are inverse: sorted ids delta-encode and decode back exactly
//# props: C25
//# kind: complete (every pair of ids, every pair of u128 deltas)
//# fns: RuneId::delta, RuneId::next
#[cfg_attr(kani, kani::proof)]
pub fn c25_rune_id_delta_next_inverse() {
  let a = RuneId { block: kani::any(), tx: kani::any() };
  let b = RuneId { block: kani::any(), tx: kani::any() };
  // encode then decode
  match a.delta(b) {
    Some((db, dt)) => {
      assert!(b >= a, "C25.rune_id.delta_only_for_non_decreasing_ids");
      assert!(db == (b.block - a.block) as u128, "C25.rune_id.delta_block");
      assert!(dt == if b.block == a.block { (b.tx - a.tx) as u128 } else { b.tx as u128 }, "C25.rune_id.delta_tx");
      if valid(b) {
        assert!(a.next(db, dt) == Some(b), "C25.rune_id.next_undoes_delta");
      }
    }
    None => assert!(b < a, "C25.rune_id.delta_none_only_when_decreasing"),
  }
  // decode then encode
  let (db, dt): (u128, u128) = (kani::any(), kani::any());
  match a.next(db, dt) {
    Some(n) => {
      assert!(valid(n), "C25.rune_id.next_yields_valid_id");
      assert!(a.delta(n) == Some((db, dt)), "C25.rune_id.delta_undoes_next");
    }
    None => {
      // refused exactly when the sum does not fit or the result would be block 0 with tx > 0
      let blk = (a.block as u128).checked_add(db);
      let fits_block = db <= u64::MAX as u128 && blk.map(|x| x <= u64::MAX as u128).unwrap_or(false);
      let txv: Option<u128> = if db == 0 { (a.tx as u128).checked_add(dt) } else { Some(dt) };
      let fits_tx = dt <= u32::MAX as u128 && txv.map(|x| x <= u32::MAX as u128).unwrap_or(false);
      let zero_block_tx = fits_block && fits_tx && blk == Some(0) && txv.unwrap() > 0;
      assert!(!fits_block || !fits_tx || zero_block_tx, "C25.rune_id.next_none_only_on_overflow_or_invalid");
    }
  }
}
