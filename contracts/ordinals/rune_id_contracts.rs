// Contracts for crates/ordinals/src/rune_id.rs (C25: delta encoding of edict ids).
#![allow(unused_imports, dead_code)]
use super::*;
#[cfg(not(kani))]
use crate::verif_contracts::kani;

fn valid(id: RuneId) -> bool {
  !(id.block == 0 && id.tx > 0)
}

/// new: exactly the ids with block == 0 && tx > 0 are refused
//# props: C25
//# kind: complete (every (u64, u32))
//# fns: RuneId::new
#[cfg_attr(kani, kani::proof)]
pub fn c25_rune_id_new() {
  let (b, t): (u64, u32) = (kani::any(), kani::any());
  match RuneId::new(b, t) {
    Some(id) => assert!(id.block == b && id.tx == t && valid(id), "C25.rune_id.new_returns_same_fields"),
    None => assert!(b == 0 && t > 0, "C25.rune_id.new_refuses_only_block0_txpos"),
  }
}

/// delta / next are inverse: sorted ids delta-encode and decode back exactly
//# props: C25
//# kind: complete (every pair of ids, every pair of u128 deltas)
//# fns: RuneId::delta, RuneId::next
#[cfg_attr(kani, kani::proof)]
pub fn c25_rune_id_delta_next_inverse() {
  let a = RuneId { block: kani::any(), tx: kani::any() };
  let b = RuneId { block: kani::any(), tx: kani::any() };
  // encode then decode
  match a.delta(b) {
    Some((db, dt)) => {
      assert!(b >= a, "C25.rune_id.delta_only_for_non_decreasing_ids");
      assert!(db == (b.block - a.block) as u128, "C25.rune_id.delta_block");
      assert!(dt == if b.block == a.block { (b.tx - a.tx) as u128 } else { b.tx as u128 }, "C25.rune_id.delta_tx");
      if valid(b) {
        assert!(a.next(db, dt) == Some(b), "C25.rune_id.next_undoes_delta");
      }
    }
    None => assert!(b < a, "C25.rune_id.delta_none_only_when_decreasing"),
  }
  // decode then encode
  let (db, dt): (u128, u128) = (kani::any(), kani::any());
  match a.next(db, dt) {
    Some(n) => {
      assert!(valid(n), "C25.rune_id.next_yields_valid_id");
      assert!(a.delta(n) == Some((db, dt)), "C25.rune_id.delta_undoes_next");
    }
    None => {
      // refused exactly when the sum does not fit or the result would be block 0 with tx > 0
      let blk = (a.block as u128).checked_add(db);
      let fits_block = db <= u64::MAX as u128 && blk.map(|x| x <= u64::MAX as u128).unwrap_or(false);
      let txv: Option<u128> = if db == 0 { (a.tx as u128).checked_add(dt) } else { Some(dt) };
      let fits_tx = dt <= u32::MAX as u128 && txv.map(|x| x <= u32::MAX as u128).unwrap_or(false);
      let zero_block_tx = fits_block && fits_tx && blk == Some(0) && txv.unwrap() > 0;
      assert!(!fits_block || !fits_tx || zero_block_tx, "C25.rune_id.next_none_only_on_overflow_or_invalid");
    }
  }
}

// ---- C31: RuneId::from_str.  Text concrete per shape, std number parsing under contract (it may
// return any value or an error), as for the sat parsers.
static mut RID_U64: Option<u64> = None;
static mut RID_U32: Option<u32> = None;

pub fn stub_rid_u64(_s: &str, _r: u32) -> Result<u64, core::num::ParseIntError> {
  match unsafe { RID_U64 } {
    Some(v) => Ok(v),
    None => "x".parse::<u8>().map(u64::from),
  }
}
pub fn stub_rid_u32(_s: &str, _r: u32) -> Result<u32, core::num::ParseIntError> {
  match unsafe { RID_U32 } {
    Some(v) => Ok(v),
    None => "x".parse::<u8>().map(u32::from),
  }
}

/// "BLOCK:TX" is accepted exactly when both parts are numbers and yields those numbers; no colon is
/// Error::Separator; never a panic.
//# props: C31
//# kind: complete for the text shapes `B:T` and `BT` (every value or failure of the two parsed components)
//# fns: RuneId::from_str
//# assume: std integer parsing is under contract: u64/u32::from_str_radix may return any value or an error (stubs)
#[cfg_attr(kani, kani::proof)]
#[cfg_attr(kani, kani::unwind(8))]
#[cfg_attr(kani, kani::stub(u64::from_str_radix, stub_rid_u64))]
#[cfg_attr(kani, kani::stub(u32::from_str_radix, stub_rid_u32))]
pub fn c31_rune_id_from_str() {
  let b: Option<u64> = kani::any();
  let t: Option<u32> = kani::any();
  unsafe {
    RID_U64 = b;
    RID_U32 = t;
  }
  #[cfg(kani)]
  let s = String::from("1:2");
  #[cfg(not(kani))]
  let s = format!(
    "{}:{}",
    b.map(|v| v.to_string()).unwrap_or("x".into()),
    t.map(|v| v.to_string()).unwrap_or("x".into())
  );
  match s.parse::<RuneId>() {
    Ok(id) => assert!(Some(id.block) == b && Some(id.tx) == t, "C31.rune_id.accepted_id_is_the_two_parsed_numbers"),
    Err(Error::Block(_)) => assert!(b.is_none(), "C31.rune_id.block_error_only_for_a_bad_block"),
    Err(Error::Transaction(_)) => assert!(b.is_some() && t.is_none(), "C31.rune_id.tx_error_only_for_a_bad_tx"),
    Err(Error::Separator) => assert!(false, "C31.rune_id.separator_present"),
  }
  assert!(matches!("12".parse::<RuneId>(), Err(Error::Separator)), "C31.rune_id.missing_colon_is_separator_error");
}
