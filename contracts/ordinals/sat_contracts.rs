// Contracts for crates/ordinals/src/{sat,epoch,height,degree,decimal_sat,rarity,charm}.rs (C29, C30).
// Compiled as a child module of the real `sat` module.
#![allow(unused_imports, dead_code)]
use super::*;
#[cfg(not(kani))]
use crate::verif_contracts::kani;
use crate::verif_contracts::spec;

// ---------------------------------------------------------------------------------------------
// Epoch table and subsidy: concrete for all 34 entries, symbolic beyond.

//# props: C29
//# kind: complete (all 34 table entries concretely; every epoch number >= 33 symbolically)
//# fns: Epoch::starting_sat, Epoch::subsidy, Epoch::starting_height
#[cfg_attr(kani, kani::proof)]
#[cfg_attr(kani, kani::unwind(36))]
pub fn c29_epoch_table() {
  let mut e: u32 = 0;
  let mut sum: u64 = 0;
  while e < 34 {
    assert!(Epoch(e).starting_sat().0 == sum, "C29.epoch.starting_sat_is_sum_of_earlier_subsidies");
    let sub = if e < 33 { (50 * spec::COIN) >> e } else { 0 };
    assert!(Epoch(e).subsidy() == sub, "C29.epoch.subsidy_halves");
    assert!(Epoch(e).starting_height().0 == e * 210_000, "C29.epoch.starting_height");
    sum += 210_000 * sub;
    e += 1;
  }
  assert!(sum == spec::SUPPLY && Sat::SUPPLY == spec::SUPPLY, "C29.epoch.supply_is_total");
  assert!(Sat::LAST.0 == spec::SUPPLY - 1, "C29.sat.last");
  let big: u32 = kani::any();
  kani::assume(big >= 33);
  assert!(Epoch(big).starting_sat().0 == spec::SUPPLY, "C29.epoch.post_subsidy_starting_sat");
  assert!(Epoch(big).subsidy() == 0, "C29.epoch.post_subsidy_zero");
}

// ---------------------------------------------------------------------------------------------
// Sat -> Epoch: the contract every other sat function is checked against.
// contract_epoch(s) = the unique e with epoch_start(e) <= s < epoch_start(e+1); 33 at or above the supply.

//# props: C29
//# kind: complete (every u64, including values at or above the supply)
//# fns: Sat::epoch, Epoch::from(Sat)
#[cfg_attr(kani, kani::proof)]
#[cfg_attr(kani, kani::unwind(36))]
pub fn c29_sat_epoch_contract() {
  let s: u64 = kani::any();
  let e = Sat(s).epoch().0;
  assert!(e <= 33, "C29.sat.epoch_at_most_33");
  assert!(spec::epoch_start(e as u64) <= s, "C29.sat.epoch_starts_at_or_before_sat");
  assert!(e == 33 || s < spec::epoch_start(e as u64 + 1), "C29.sat.epoch_ends_after_sat");
  assert!((e == 33) == (s >= spec::SUPPLY), "C29.sat.epoch_33_iff_beyond_supply");
  assert!(Epoch::from(Sat(s)).0 == e, "C29.sat.epoch_method_is_from");
}

// ---------------------------------------------------------------------------------------------
// Height -> first sat: closed form, consecutive numbering in mining order.  One harness per
// halving epoch (and one for everything beyond), so that the subsidy is a propagated constant.

fn height_in_epoch(e: u32) {
  let h: u32 = kani::any();
  if e < 33 {
    kani::assume(h >= e * 210_000 && h < (e + 1) * 210_000);
  } else {
    kani::assume(h >= 33 * 210_000);
  }
  let hs = Height(h).starting_sat().0;
  let sub = Height(h).subsidy();
  assert!(sub == (if e < 33 { (50 * spec::COIN) >> e } else { 0 }), "C29.height.subsidy");
  assert!(hs == spec::first_sat_e(e as u64, h as u64), "C29.height.starting_sat_closed_form");
  if h < u32::MAX {
    let next = Height(h + 1).starting_sat().0;
    assert!(next == hs + sub, "C29.height.consecutive_in_mining_order");
  }
  assert!(hs <= spec::SUPPLY, "C29.height.at_most_supply");
  assert!((hs == spec::SUPPLY) == (e >= 33), "C29.height.supply_reached_exactly_when_subsidy_ends");
}

//# props: C29
//# kind: complete (every height of halving epoch 0; c29_height_e00..e33 together cover every u32 height)
//# fns: Height::starting_sat, Height::subsidy, Epoch::from(Height)
#[cfg_attr(kani, kani::proof)]
#[cfg_attr(kani, kani::unwind(36))]
pub fn c29_height_e00() {
  height_in_epoch(0);
}

//# props: C29
//# kind: complete (every height of halving epoch 1; c29_height_e00..e33 together cover every u32 height)
//# fns: Height::starting_sat, Height::subsidy, Epoch::from(Height)
//# tier: thorough
#[cfg_attr(kani, kani::proof)]
#[cfg_attr(kani, kani::unwind(36))]
pub fn c29_height_e01() {
  height_in_epoch(1);
}

//# props: C29
//# kind: complete (every height of halving epoch 2; c29_height_e00..e33 together cover every u32 height)
//# fns: Height::starting_sat, Height::subsidy, Epoch::from(Height)
//# tier: thorough
#[cfg_attr(kani, kani::proof)]
#[cfg_attr(kani, kani::unwind(36))]
pub fn c29_height_e02() {
  height_in_epoch(2);
}

//# props: C29
//# kind: complete (every height of halving epoch 3; c29_height_e00..e33 together cover every u32 height)
//# fns: Height::starting_sat, Height::subsidy, Epoch::from(Height)
//# tier: thorough
#[cfg_attr(kani, kani::proof)]
#[cfg_attr(kani, kani::unwind(36))]
pub fn c29_height_e03() {
  height_in_epoch(3);
}

//# props: C29
//# kind: complete (every height of halving epoch 4; c29_height_e00..e33 together cover every u32 height)
//# fns: Height::starting_sat, Height::subsidy, Epoch::from(Height)
//# tier: thorough
#[cfg_attr(kani, kani::proof)]
#[cfg_attr(kani, kani::unwind(36))]
pub fn c29_height_e04() {
  height_in_epoch(4);
}

//# props: C29
//# kind: complete (every height of halving epoch 5; c29_height_e00..e33 together cover every u32 height)
//# fns: Height::starting_sat, Height::subsidy, Epoch::from(Height)
//# tier: thorough
#[cfg_attr(kani, kani::proof)]
#[cfg_attr(kani, kani::unwind(36))]
pub fn c29_height_e05() {
  height_in_epoch(5);
}

//# props: C29
//# kind: complete (every height of halving epoch 6; c29_height_e00..e33 together cover every u32 height)
//# fns: Height::starting_sat, Height::subsidy, Epoch::from(Height)
//# tier: thorough
#[cfg_attr(kani, kani::proof)]
#[cfg_attr(kani, kani::unwind(36))]
pub fn c29_height_e06() {
  height_in_epoch(6);
}

//# props: C29
//# kind: complete (every height of halving epoch 7; c29_height_e00..e33 together cover every u32 height)
//# fns: Height::starting_sat, Height::subsidy, Epoch::from(Height)
//# tier: thorough
#[cfg_attr(kani, kani::proof)]
#[cfg_attr(kani, kani::unwind(36))]
pub fn c29_height_e07() {
  height_in_epoch(7);
}

//# props: C29
//# kind: complete (every height of halving epoch 8; c29_height_e00..e33 together cover every u32 height)
//# fns: Height::starting_sat, Height::subsidy, Epoch::from(Height)
//# tier: thorough
#[cfg_attr(kani, kani::proof)]
#[cfg_attr(kani, kani::unwind(36))]
pub fn c29_height_e08() {
  height_in_epoch(8);
}

//# props: C29
//# kind: complete (every height of halving epoch 9; c29_height_e00..e33 together cover every u32 height)
//# fns: Height::starting_sat, Height::subsidy, Epoch::from(Height)
//# tier: thorough
#[cfg_attr(kani, kani::proof)]
#[cfg_attr(kani, kani::unwind(36))]
pub fn c29_height_e09() {
  height_in_epoch(9);
}

//# props: C29
//# kind: complete (every height of halving epoch 10; c29_height_e00..e33 together cover every u32 height)
//# fns: Height::starting_sat, Height::subsidy, Epoch::from(Height)
//# tier: thorough
#[cfg_attr(kani, kani::proof)]
#[cfg_attr(kani, kani::unwind(36))]
pub fn c29_height_e10() {
  height_in_epoch(10);
}

//# props: C29
//# kind: complete (every height of halving epoch 11; c29_height_e00..e33 together cover every u32 height)
//# fns: Height::starting_sat, Height::subsidy, Epoch::from(Height)
//# tier: thorough
#[cfg_attr(kani, kani::proof)]
#[cfg_attr(kani, kani::unwind(36))]
pub fn c29_height_e11() {
  height_in_epoch(11);
}

//# props: C29
//# kind: complete (every height of halving epoch 12; c29_height_e00..e33 together cover every u32 height)
//# fns: Height::starting_sat, Height::subsidy, Epoch::from(Height)
//# tier: thorough
#[cfg_attr(kani, kani::proof)]
#[cfg_attr(kani, kani::unwind(36))]
pub fn c29_height_e12() {
  height_in_epoch(12);
}

//# props: C29
//# kind: complete (every height of halving epoch 13; c29_height_e00..e33 together cover every u32 height)
//# fns: Height::starting_sat, Height::subsidy, Epoch::from(Height)
//# tier: thorough
#[cfg_attr(kani, kani::proof)]
#[cfg_attr(kani, kani::unwind(36))]
pub fn c29_height_e13() {
  height_in_epoch(13);
}

//# props: C29
//# kind: complete (every height of halving epoch 14; c29_height_e00..e33 together cover every u32 height)
//# fns: Height::starting_sat, Height::subsidy, Epoch::from(Height)
//# tier: thorough
#[cfg_attr(kani, kani::proof)]
#[cfg_attr(kani, kani::unwind(36))]
pub fn c29_height_e14() {
  height_in_epoch(14);
}

//# props: C29
//# kind: complete (every height of halving epoch 15; c29_height_e00..e33 together cover every u32 height)
//# fns: Height::starting_sat, Height::subsidy, Epoch::from(Height)
//# tier: thorough
#[cfg_attr(kani, kani::proof)]
#[cfg_attr(kani, kani::unwind(36))]
pub fn c29_height_e15() {
  height_in_epoch(15);
}

//# props: C29
//# kind: complete (every height of halving epoch 16; c29_height_e00..e33 together cover every u32 height)
//# fns: Height::starting_sat, Height::subsidy, Epoch::from(Height)
//# tier: thorough
#[cfg_attr(kani, kani::proof)]
#[cfg_attr(kani, kani::unwind(36))]
pub fn c29_height_e16() {
  height_in_epoch(16);
}

//# props: C29
//# kind: complete (every height of halving epoch 17; c29_height_e00..e33 together cover every u32 height)
//# fns: Height::starting_sat, Height::subsidy, Epoch::from(Height)
//# tier: thorough
#[cfg_attr(kani, kani::proof)]
#[cfg_attr(kani, kani::unwind(36))]
pub fn c29_height_e17() {
  height_in_epoch(17);
}

//# props: C29
//# kind: complete (every height of halving epoch 18; c29_height_e00..e33 together cover every u32 height)
//# fns: Height::starting_sat, Height::subsidy, Epoch::from(Height)
//# tier: thorough
#[cfg_attr(kani, kani::proof)]
#[cfg_attr(kani, kani::unwind(36))]
pub fn c29_height_e18() {
  height_in_epoch(18);
}

//# props: C29
//# kind: complete (every height of halving epoch 19; c29_height_e00..e33 together cover every u32 height)
//# fns: Height::starting_sat, Height::subsidy, Epoch::from(Height)
//# tier: thorough
#[cfg_attr(kani, kani::proof)]
#[cfg_attr(kani, kani::unwind(36))]
pub fn c29_height_e19() {
  height_in_epoch(19);
}

//# props: C29
//# kind: complete (every height of halving epoch 20; c29_height_e00..e33 together cover every u32 height)
//# fns: Height::starting_sat, Height::subsidy, Epoch::from(Height)
//# tier: thorough
#[cfg_attr(kani, kani::proof)]
#[cfg_attr(kani, kani::unwind(36))]
pub fn c29_height_e20() {
  height_in_epoch(20);
}

//# props: C29
//# kind: complete (every height of halving epoch 21; c29_height_e00..e33 together cover every u32 height)
//# fns: Height::starting_sat, Height::subsidy, Epoch::from(Height)
//# tier: thorough
#[cfg_attr(kani, kani::proof)]
#[cfg_attr(kani, kani::unwind(36))]
pub fn c29_height_e21() {
  height_in_epoch(21);
}

//# props: C29
//# kind: complete (every height of halving epoch 22; c29_height_e00..e33 together cover every u32 height)
//# fns: Height::starting_sat, Height::subsidy, Epoch::from(Height)
//# tier: thorough
#[cfg_attr(kani, kani::proof)]
#[cfg_attr(kani, kani::unwind(36))]
pub fn c29_height_e22() {
  height_in_epoch(22);
}

//# props: C29
//# kind: complete (every height of halving epoch 23; c29_height_e00..e33 together cover every u32 height)
//# fns: Height::starting_sat, Height::subsidy, Epoch::from(Height)
//# tier: thorough
#[cfg_attr(kani, kani::proof)]
#[cfg_attr(kani, kani::unwind(36))]
pub fn c29_height_e23() {
  height_in_epoch(23);
}

//# props: C29
//# kind: complete (every height of halving epoch 24; c29_height_e00..e33 together cover every u32 height)
//# fns: Height::starting_sat, Height::subsidy, Epoch::from(Height)
//# tier: thorough
#[cfg_attr(kani, kani::proof)]
#[cfg_attr(kani, kani::unwind(36))]
pub fn c29_height_e24() {
  height_in_epoch(24);
}

//# props: C29
//# kind: complete (every height of halving epoch 25; c29_height_e00..e33 together cover every u32 height)
//# fns: Height::starting_sat, Height::subsidy, Epoch::from(Height)
//# tier: thorough
#[cfg_attr(kani, kani::proof)]
#[cfg_attr(kani, kani::unwind(36))]
pub fn c29_height_e25() {
  height_in_epoch(25);
}

//# props: C29
//# kind: complete (every height of halving epoch 26; c29_height_e00..e33 together cover every u32 height)
//# fns: Height::starting_sat, Height::subsidy, Epoch::from(Height)
//# tier: thorough
#[cfg_attr(kani, kani::proof)]
#[cfg_attr(kani, kani::unwind(36))]
pub fn c29_height_e26() {
  height_in_epoch(26);
}

//# props: C29
//# kind: complete (every height of halving epoch 27; c29_height_e00..e33 together cover every u32 height)
//# fns: Height::starting_sat, Height::subsidy, Epoch::from(Height)
//# tier: thorough
#[cfg_attr(kani, kani::proof)]
#[cfg_attr(kani, kani::unwind(36))]
pub fn c29_height_e27() {
  height_in_epoch(27);
}

//# props: C29
//# kind: complete (every height of halving epoch 28; c29_height_e00..e33 together cover every u32 height)
//# fns: Height::starting_sat, Height::subsidy, Epoch::from(Height)
//# tier: thorough
#[cfg_attr(kani, kani::proof)]
#[cfg_attr(kani, kani::unwind(36))]
pub fn c29_height_e28() {
  height_in_epoch(28);
}

//# props: C29
//# kind: complete (every height of halving epoch 29; c29_height_e00..e33 together cover every u32 height)
//# fns: Height::starting_sat, Height::subsidy, Epoch::from(Height)
//# tier: thorough
#[cfg_attr(kani, kani::proof)]
#[cfg_attr(kani, kani::unwind(36))]
pub fn c29_height_e29() {
  height_in_epoch(29);
}

//# props: C29
//# kind: complete (every height of halving epoch 30; c29_height_e00..e33 together cover every u32 height)
//# fns: Height::starting_sat, Height::subsidy, Epoch::from(Height)
//# tier: thorough
#[cfg_attr(kani, kani::proof)]
#[cfg_attr(kani, kani::unwind(36))]
pub fn c29_height_e30() {
  height_in_epoch(30);
}

//# props: C29
//# kind: complete (every height of halving epoch 31; c29_height_e00..e33 together cover every u32 height)
//# fns: Height::starting_sat, Height::subsidy, Epoch::from(Height)
//# tier: thorough
#[cfg_attr(kani, kani::proof)]
#[cfg_attr(kani, kani::unwind(36))]
pub fn c29_height_e31() {
  height_in_epoch(31);
}

//# props: C29
//# kind: complete (every height of halving epoch 32; c29_height_e00..e33 together cover every u32 height)
//# fns: Height::starting_sat, Height::subsidy, Epoch::from(Height)
#[cfg_attr(kani, kani::proof)]
#[cfg_attr(kani, kani::unwind(36))]
pub fn c29_height_e32() {
  height_in_epoch(32);
}

//# props: C29
//# kind: complete (every height of halving epoch 33 and beyond; c29_height_e00..e33 together cover every u32 height)
//# fns: Height::starting_sat, Height::subsidy, Epoch::from(Height)
#[cfg_attr(kani, kani::proof)]
#[cfg_attr(kani, kani::unwind(36))]
pub fn c29_height_e33() {
  height_in_epoch(33);
}

// ---------------------------------------------------------------------------------------------
// Sat::height / Sat::third are proved equal to spec_height / spec_third by the Verus unit
// `sat_kernel` (contracts/verus/sat_kernel.rs.tmpl) together with the lemmas
//   lemma_sat_to_height_offset:  h < 6 930 000, o < subsidy(h), first_sat(h) + o == s
//   lemma_height_offset_to_sat:  the converse (one-to-one)
// The harnesses below see those two functions only through that contract: a memoised stub that
// returns the (unique) pair characterised by the lemma, without any division.

static mut MEMO_SET: bool = false;
static mut MEMO_S: u64 = 0;
static mut MEMO_H: u32 = 0;
static mut MEMO_O: u64 = 0;

fn contract_height_third(s: u64) -> (u32, u64) {
  assert!(s < spec::SUPPLY, "C29.contract.height_third_precondition_sat_below_supply");
  unsafe {
    if !MEMO_SET || MEMO_S != s {
      let h: u32 = kani::any();
      let o: u64 = kani::any();
      kani::assume((h as u64) < spec::SUBSIDY_HEIGHTS);
      let e = (h / 210_000) as u64;
      kani::assume(o < (50 * spec::COIN) >> e);
      kani::assume(spec::first_sat_e(e, h as u64) + o == s);
      MEMO_SET = true;
      MEMO_S = s;
      MEMO_H = h;
      MEMO_O = o;
    }
    (MEMO_H, MEMO_O)
  }
}

pub fn contract_height(s: Sat) -> Height {
  Height(contract_height_third(s.0).0)
}

pub fn contract_third(s: Sat) -> u64 {
  contract_height_third(s.0).1
}

pub fn contract_common(s: Sat) -> bool {
  contract_height_third(s.0).1 != 0
}

fn rarity_of_code(c: u8) -> Rarity {
  match c {
    0 => Rarity::Common,
    1 => Rarity::Uncommon,
    2 => Rarity::Rare,
    3 => Rarity::Epic,
    4 => Rarity::Legendary,
    _ => Rarity::Mythic,
  }
}

//# props: C29, C30
//# kind: complete (every sat below the supply; Sat::height and Sat::third under their Verus-verified contract)
//# fns: Sat::degree, Sat::decimal, Degree::from(Sat), DecimalSat::from(Sat), Sat::period, Sat::rarity, Rarity::from(Sat)
//# assume: contract of Sat::height / Sat::third (proved by the Verus unit sat_kernel and its lemmas) is transcribed as a memoised Kani stub
#[cfg_attr(kani, kani::proof)]
#[cfg_attr(kani, kani::unwind(36))]
#[cfg_attr(kani, kani::stub(Sat::height, contract_height))]
#[cfg_attr(kani, kani::stub(Sat::third, contract_third))]
pub fn c29_sat_derived_attributes() {
  let s: u64 = kani::any();
  kani::assume(s < spec::SUPPLY);
  let sat = Sat(s);
  let (h, o) = contract_height_third(s);
  let d = sat.degree();
  assert!(d.hour == h / 1_260_000, "C29.sat.degree_hour_is_cycle");
  assert!(d.minute == h % 210_000, "C29.sat.degree_minute_is_epoch_offset");
  assert!(d.second == h % 2016, "C29.sat.degree_second_is_period_offset");
  assert!(d.third == o, "C29.sat.degree_third_is_block_offset");
  let dec = sat.decimal();
  assert!(dec.height.0 == h && dec.offset == o, "C29.sat.decimal_is_height_dot_offset");
  assert!(sat.period() == h / 2016, "C29.sat.period");
  let r = sat.rarity();
  assert!(r == rarity_of_code(spec::rarity_code(h as u64, o)), "C29.sat.rarity_is_function_of_height_and_offset");
  assert!(Rarity::from(sat) == r, "C29.sat.rarity_method_is_from");
  kani::cover!(r == Rarity::Legendary, "legendary reachable");
  kani::cover!(r == Rarity::Epic, "epic reachable");
  kani::cover!(r == Rarity::Rare, "rare reachable");
  kani::cover!(r == Rarity::Uncommon, "uncommon reachable");
}

// pure-function stand-ins for the individual predicates: "any deterministic function of the sat".
static mut P_SET: bool = false;
static mut P_S: u64 = 0;
static mut P_COIN: bool = false;
static mut P_NINE: bool = false;
static mut P_PAL: bool = false;
static mut P_RARITY: u8 = 0;

fn predicates(s: u64) -> (bool, bool, bool, u8) {
  unsafe {
    if !P_SET || P_S != s {
      P_SET = true;
      P_S = s;
      P_COIN = kani::any();
      P_NINE = kani::any();
      P_PAL = kani::any();
      P_RARITY = kani::any();
      kani::assume(P_RARITY < 6);
    }
    (P_COIN, P_NINE, P_PAL, P_RARITY)
  }
}
pub fn any_coin(s: Sat) -> bool { predicates(s.0).0 }
pub fn any_nineball(s: Sat) -> bool { predicates(s.0).1 }
pub fn any_palindrome(s: Sat) -> bool { predicates(s.0).2 }
pub fn any_rarity(s: Sat) -> Rarity { rarity_of_code(predicates(s.0).3) }

//# props: C29
//# kind: complete (every u64 and every behaviour of the individual predicates: the charm bits are exactly the predicates)
//# fns: Sat::charms, Charm::set, Charm::flag, Charm::is_set
//# assume: Sat::coin / nineball / palindrome / rarity are pure functions of the sat (their own contracts: Verus unit sat_kernel, c29_sat_palindrome, c29_sat_derived_attributes)
#[cfg_attr(kani, kani::proof)]
#[cfg_attr(kani, kani::stub(Sat::coin, any_coin))]
#[cfg_attr(kani, kani::stub(Sat::nineball, any_nineball))]
#[cfg_attr(kani, kani::stub(Sat::palindrome, any_palindrome))]
#[cfg_attr(kani, kani::stub(Sat::rarity, any_rarity))]
pub fn c29_sat_charms() {
  let s: u64 = kani::any();
  let sat = Sat(s);
  let c = sat.charms();
  let (coin, nine, pal, rc) = predicates(s);
  let r = rarity_of_code(rc);
  assert!(Charm::Coin.is_set(c) == coin, "C29.charms.coin");
  assert!(Charm::Nineball.is_set(c) == nine, "C29.charms.nineball");
  assert!(Charm::Palindrome.is_set(c) == pal, "C29.charms.palindrome");
  assert!(Charm::Uncommon.is_set(c) == (r == Rarity::Uncommon), "C29.charms.uncommon");
  assert!(Charm::Rare.is_set(c) == (r == Rarity::Rare), "C29.charms.rare");
  assert!(Charm::Epic.is_set(c) == (r == Rarity::Epic), "C29.charms.epic");
  assert!(Charm::Legendary.is_set(c) == (r == Rarity::Legendary), "C29.charms.legendary");
  assert!(Charm::Mythic.is_set(c) == (r == Rarity::Mythic), "C29.charms.mythic");
  let sat_bits = Charm::Coin.flag() | Charm::Nineball.flag() | Charm::Palindrome.flag() | Charm::Uncommon.flag()
    | Charm::Rare.flag() | Charm::Epic.flag() | Charm::Legendary.flag() | Charm::Mythic.flag();
  assert!(c & !sat_bits == 0, "C29.charms.no_inscription_charms_on_bare_sat");
  // the 14 flags are distinct bits
  let mut seen: u16 = 0;
  let mut i = 0;
  while i < 14 {
    let f = Charm::ALL[i].flag();
    assert!(f.count_ones() == 1 && seen & f == 0, "C29.charms.flags_are_distinct_bits");
    seen |= f;
    i += 1;
  }
}

/// palindrome: decimal digits read the same both ways (spec: explicit digit array).  Since round 3
/// the deciding contract is the Verus unit sat_palindrome (unbounded, spec: n equals its digit
/// reversal); this harness is its counterexample finder and a bounded cross-check that the two
/// formulations of "palindrome" agree (tier cex: run only after a Verus obligation failed).
//# props: C29
//# tier: cex
//# kind: bounded(sats below 10^6: 6 decimal digits; 64-bit digit reversal is beyond CBMC for the full range)
//# fns: Sat::palindrome
#[cfg_attr(kani, kani::proof)]
#[cfg_attr(kani, kani::unwind(9))]
pub fn c29_sat_palindrome() {
  let s: u64 = kani::any();
  kani::assume(s < 1_000_000);
  let mut digits = [0u8; 7];
  let mut n = s;
  let mut len = 0usize;
  while n > 0 {
    digits[len] = (n % 10) as u8;
    n /= 10;
    len += 1;
  }
  let mut is_pal = true;
  let mut i = 0;
  while i < len {
    if digits[i] != digits[len - 1 - i] {
      is_pal = false;
    }
    i += 1;
  }
  assert!(Sat(s).palindrome() == is_pal, "C29.sat.palindrome_reads_same_both_ways");
}

/// the rarity supply table equals the counts implied by the rarity contract:
/// one sat per (height, offset 0) is non-common; heights are classified by divisibility.
//# props: C29
//# kind: complete (closed-form counting over the 6 930 000 subsidy-bearing heights; the inclusion-exclusion step is a hand derivation stated in the harness)
//# fns: Rarity::supply
#[cfg_attr(kani, kani::proof)]
pub fn c29_rarity_supply_table() {
  let heights: u64 = spec::SUBSIDY_HEIGHTS; // every one of them has subsidy >= 1 (c29_height_e00..e32)
  let ceil_div = |a: u64, b: u64| (a + b - 1) / b;
  let cycle_starts = ceil_div(heights, 6 * 210_000); // h % 1 260 000 == 0  (halving and adjustment coincide)
  let halvings = ceil_div(heights, 210_000); // h % 210 000 == 0
  let adjustments = ceil_div(heights, 2016); // h % 2016 == 0
  // lcm(210 000, 2016) = 1 260 000, so "both" == cycle start
  let mythic = 1;
  let legendary = cycle_starts - 1;
  let epic = halvings - cycle_starts;
  let rare = adjustments - cycle_starts;
  let uncommon = heights - halvings - adjustments + cycle_starts;
  let common = spec::SUPPLY - heights;
  assert!(Rarity::Mythic.supply() == mythic, "C29.rarity.supply_mythic");
  assert!(Rarity::Legendary.supply() == legendary, "C29.rarity.supply_legendary");
  assert!(Rarity::Epic.supply() == epic, "C29.rarity.supply_epic");
  assert!(Rarity::Rare.supply() == rare, "C29.rarity.supply_rare");
  assert!(Rarity::Uncommon.supply() == uncommon, "C29.rarity.supply_uncommon");
  assert!(Rarity::Common.supply() == common, "C29.rarity.supply_common");
  assert!(mythic + legendary + epic + rare + uncommon + common == spec::SUPPLY, "C29.rarity.supplies_sum_to_total");
}

// ---------------------------------------------------------------------------------------------
// Counterexample finders for the Verus unit (tier `cex`: run only when an obligation of sat_kernel
// fails, to obtain a concrete sat that replays natively).  On a correct tree these do not
// terminate within the budget (Euclidean-division uniqueness is hard for SAT) and are never run.

fn sat_inverse_in_epoch(e: u32) {
  let s: u64 = kani::any();
  let lo = spec::epoch_start(e as u64);
  let hi = spec::epoch_start(e as u64 + 1);
  kani::assume(s >= lo && s < hi);
  let sub = (50 * spec::COIN) >> e;
  let sat = Sat(s);
  let h = sat.height().0;
  let o = sat.third();
  assert!(h / 210_000 == e, "C29.sat.height_in_epoch");
  assert!(o < sub, "C29.sat.offset_below_subsidy");
  assert!(spec::first_sat_e(e as u64, h as u64) + o == s, "C29.sat.height_offset_is_inverse_of_first_sat");
  assert!(sat.common() == (o != 0), "C29.sat.common_iff_offset_nonzero");
  assert!(sat.cycle() == e / 6, "C29.sat.cycle");
  assert!(sat.epoch_position() == s - lo, "C29.sat.epoch_position");
}

//# props: C29
//# kind: bounded(counterexample finder for epoch 0)
//# tier: cex
//# timeout: 120
#[cfg_attr(kani, kani::proof)]
#[cfg_attr(kani, kani::unwind(36))]
pub fn c29_sat_e00() {
  sat_inverse_in_epoch(0);
}

//# props: C29
//# kind: bounded(counterexample finder for epoch 10)
//# tier: cex
//# timeout: 120
#[cfg_attr(kani, kani::proof)]
#[cfg_attr(kani, kani::unwind(36))]
pub fn c29_sat_e10() {
  sat_inverse_in_epoch(10);
}

//# props: C29
//# kind: bounded(counterexample finder for epoch 32)
//# tier: cex
//# timeout: 120
#[cfg_attr(kani, kani::proof)]
#[cfg_attr(kani, kani::unwind(36))]
pub fn c29_sat_e32() {
  sat_inverse_in_epoch(32);
}

// ---------------------------------------------------------------------------------------------
// C30 / C31: the sat notation parsers.  The TEXT is concrete under Kani (one string of each grammar
// shape) and std's number parsing is under contract: `uN::from_str_radix` / `f64::from_str` may
// return ANY value (stubs below), so every parsed component is symbolic and the arithmetic after
// parsing is checked over the full machine range.  Natively (replay) the same harness prints the
// recorded component values into the text and runs the real parser with the real std.

static mut PARSED_U32: [u32; 3] = [0; 3];
static mut PARSED_U32_NEXT: usize = 0;
static mut PARSED_U64: u64 = 0;
static mut PARSED_F64: f64 = 0.0;

pub fn stub_u32_from_str_radix(_src: &str, _radix: u32) -> Result<u32, core::num::ParseIntError> {
  unsafe {
    let i = PARSED_U32_NEXT;
    PARSED_U32_NEXT += 1;
    Ok(PARSED_U32[i % 3])
  }
}

pub fn stub_u64_from_str_radix(_src: &str, _radix: u32) -> Result<u64, core::num::ParseIntError> {
  unsafe { Ok(PARSED_U64) }
}

pub fn stub_f64_from_str(_src: &str) -> Result<f64, core::num::ParseFloatError> {
  unsafe { Ok(PARSED_F64) }
}

fn set_parsed(a: u32, b: u32, c: u32, d: u64) {
  unsafe {
    PARSED_U32 = [a, b, c];
    PARSED_U32_NEXT = 0;
    PARSED_U64 = d;
  }
}

#[cfg(kani)]
fn degree_text(_c: u32, _e: u32, _p: u32, _b: u64) -> String {
  String::from("1°2′3″4‴")
}
#[cfg(not(kani))]
fn degree_text(c: u32, e: u32, p: u32, b: u64) -> String {
  format!("{c}°{e}′{p}″{b}‴")
}
#[cfg(kani)]
fn decimal_text(_h: u32, _o: u64) -> String {
  String::from("1.2")
}
#[cfg(not(kani))]
fn decimal_text(h: u32, o: u64) -> String {
  format!("{h}.{o}")
}

// Height::starting_sat / Height::subsidy enter the parser harnesses under their C29 contract only:
// a deterministic function of the height (memoised), with the facts C29 proves for every u32 height
// (c29_height_e00..e33): the subsidy is 50 coin >> (h / 210 000), zero from height 6 930 000 on; the first
// sat is left uninterpreted apart from first sat + subsidy (= the next height's first sat) <= supply.  The stub also records the height it was called with, which
// is how the harness observes "the height the parser decided on" without inverting sat -> height.
static mut HC_SET: bool = false;
static mut HC_H: u32 = 0;
static mut HC_START: u64 = 0;
static mut HC_SUB: u64 = 0;

#[cfg(kani)]
fn height_contract(h: u32) -> (u64, u64) {
  unsafe {
    if !HC_SET || HC_H != h {
      let start: u64 = kani::any();
      let sub: u64 = kani::any();
      // C29.height.subsidy: exact closed form (cheap: one shift), so counterexamples replay natively
      kani::assume(sub == spec::subsidy(h as u64));
      kani::assume(start <= spec::SUPPLY && start + sub <= spec::SUPPLY);
      HC_SET = true;
      HC_H = h;
      HC_START = start;
      HC_SUB = sub;
    }
    (HC_START, HC_SUB)
  }
}
#[cfg(not(kani))]
fn height_contract(h: u32) -> (u64, u64) {
  (Height(h).starting_sat().0, Height(h).subsidy())
}

pub fn contract_starting_sat(h: Height) -> Sat {
  Sat(height_contract(h.0).0)
}

pub fn contract_subsidy(h: Height) -> u64 {
  height_contract(h.0).1
}

/// the height the parser computed: under Kani the argument the contract stub was last called with,
/// natively the height of the returned sat (real Sat::height)
fn decided_height(_s: Sat) -> u32 {
  #[cfg(kani)]
  unsafe {
    assert!(HC_SET, "C31.parser_consulted_the_height_table_before_accepting");
    HC_H
  }
  #[cfg(not(kani))]
  _s.height().0
}

/// Sat::from_degree never panics, and accepts only a degree that denotes the returned sat: the
/// height it decides on has exactly the parsed cycle, epoch offset and period offset, the block
/// offset is below that height's subsidy and the sat is that height's first sat plus the offset
/// (components whose arithmetic would overflow are therefore rejected, not wrapped).
//# props: C31, C30
//# kind: complete (every value of the four parsed components: u32 x u32 x u32 x u64; text shape `C°E′P″B‴`)
//# fns: Sat::from_degree
//# assume: std integer parsing is under contract: u32/u64::from_str_radix may return any value (stub); the text structure (split_once on the four symbols) is exercised on one concrete string of the full shape
//# assume: Height::starting_sat / Height::subsidy are under their C29 contract (memoised stub height_contract): deterministic in the height, subsidy = 50 coin >> (h / 210 000), first sat uninterpreted with first sat + subsidy <= supply
//# timeout: 600
#[cfg_attr(kani, kani::proof)]
#[cfg_attr(kani, kani::unwind(36))]
#[cfg_attr(kani, kani::stub(u32::from_str_radix, stub_u32_from_str_radix))]
#[cfg_attr(kani, kani::stub(u64::from_str_radix, stub_u64_from_str_radix))]
#[cfg_attr(kani, kani::stub(Height::starting_sat, contract_starting_sat))]
#[cfg_attr(kani, kani::stub(Height::subsidy, contract_subsidy))]
pub fn c31_from_degree_sound() {
  let c: u32 = kani::any();
  let e: u32 = kani::any();
  let p: u32 = kani::any();
  let b: u64 = kani::any();
  set_parsed(c, e, p, b);
  let text = degree_text(c, e, p, b);
  if let Ok(s) = Sat::from_degree(&text) {
    let h = decided_height(s);
    let (start, sub) = height_contract(h);
    assert!(b < sub, "C31.from_degree.accepted_block_offset_is_below_the_subsidy");
    assert!(s.0 == start + b && s.0 < spec::SUPPLY, "C31.from_degree.accepted_sat_is_first_sat_of_height_plus_offset");
    assert!(h % 210_000 == e, "C31.from_degree.accepted_epoch_offset_is_the_parsed_one");
    assert!(h % 2016 == p, "C31.from_degree.accepted_period_offset_is_the_parsed_one");
    assert!(h / 1_260_000 == c, "C31.from_degree.accepted_cycle_is_the_parsed_one");
  }
  kani::cover!(Sat::from_degree(&text).is_ok(), "some degree is accepted");
}

#[cfg(kani)]
fn degree_text_no_third(_c: u32, _e: u32, _p: u32) -> String {
  String::from("1°2′3″")
}
#[cfg(not(kani))]
fn degree_text_no_third(c: u32, e: u32, p: u32) -> String {
  format!("{c}°{e}′{p}″")
}

/// the abbreviated degree `C°E′P″` (no block offset: the first sat of the block): the same contract
/// with offset 0 - in particular a height whose subsidy is zero (6 930 000 and beyond) denotes no sat
/// and must be rejected.  (Second grammar shape of the notation; added after sub-agent seed C31-1,
/// which skipped the subsidy test exactly when the third component is absent.)
fn degree_no_third(c: u32, e: u32, p: u32) {
  set_parsed(c, e, p, 0);
  let text = degree_text_no_third(c, e, p);
  if let Ok(s) = Sat::from_degree(&text) {
    let h = decided_height(s);
    let (start, sub) = height_contract(h);
    assert!(0 < sub, "C31.from_degree.abbreviated_form_needs_a_block_with_a_subsidy");
    assert!(s.0 == start && s.0 < spec::SUPPLY, "C31.from_degree.abbreviated_form_is_first_sat_of_the_height");
    assert!(h % 210_000 == e, "C31.from_degree.accepted_epoch_offset_is_the_parsed_one");
    assert!(h % 2016 == p, "C31.from_degree.accepted_period_offset_is_the_parsed_one");
    assert!(h / 1_260_000 == c, "C31.from_degree.accepted_cycle_is_the_parsed_one");
    kani::cover!(true, "some abbreviated degree is accepted");
  }
}

//# props: C31, C30
//# kind: complete (cycles 0..=5 - the only ones with a subsidy - with every epoch and period offset: u32 x u32; text shape `C°E′P″`; cycles >= 6: c31_from_degree_no_third_late_cycles)
//# fns: Sat::from_degree
//# assume: std integer parsing is under contract: u32::from_str_radix may return any value (stub); the text structure is exercised on one concrete string of this shape
//# assume: Height::starting_sat / Height::subsidy are under their C29 contract (memoised stub height_contract)
//# timeout: 1800
//# tier: thorough
//# assume: core::slice::memchr::memchr_aligned equals its naive definition (stub; std's word-at-a-time version makes CBMC's symbolic execution of the three-symbol text take > 13 min)
#[cfg_attr(kani, kani::proof)]
#[cfg_attr(kani, kani::unwind(36))]
#[cfg_attr(kani, kani::stub(u32::from_str_radix, stub_u32_from_str_radix))]
#[cfg_attr(kani, kani::stub(u64::from_str_radix, stub_u64_from_str_radix))]
#[cfg_attr(kani, kani::stub(Height::starting_sat, contract_starting_sat))]
#[cfg_attr(kani, kani::stub(Height::subsidy, contract_subsidy))]
#[cfg_attr(kani, kani::stub(core::slice::memchr::memchr_aligned, naive_memchr_aligned))]
pub fn c31_from_degree_sound_no_third() {
  let c: u32 = kani::any();
  kani::assume(c <= 5);
  degree_no_third(c, kani::any(), kani::any());
}

/// core::slice::memchr::memchr_aligned by its definition (the first index holding the byte)
pub fn naive_memchr_aligned(x: u8, text: &[u8]) -> Option<usize> {
  let mut i = 0;
  while i < text.len() {
    if text[i] == x {
      return Some(i);
    }
    i += 1;
  }
  None
}

/// cycles 6 and later lie entirely past the last subsidy: no abbreviated degree there denotes a sat
//# props: C31
//# kind: complete (every cycle >= 6 with every epoch and period offset; text shape `C°E′P″`)
//# fns: Sat::from_degree
//# assume: as c31_from_degree_sound_no_third
//# timeout: 1800
//# tier: thorough
//# assume: core::slice::memchr::memchr_aligned equals its naive definition (stub; std's word-at-a-time version makes CBMC's symbolic execution of the three-symbol text take > 13 min)
#[cfg_attr(kani, kani::proof)]
#[cfg_attr(kani, kani::unwind(36))]
#[cfg_attr(kani, kani::stub(u32::from_str_radix, stub_u32_from_str_radix))]
#[cfg_attr(kani, kani::stub(u64::from_str_radix, stub_u64_from_str_radix))]
#[cfg_attr(kani, kani::stub(Height::starting_sat, contract_starting_sat))]
#[cfg_attr(kani, kani::stub(Height::subsidy, contract_subsidy))]
#[cfg_attr(kani, kani::stub(core::slice::memchr::memchr_aligned, naive_memchr_aligned))]
pub fn c31_from_degree_no_third_late_cycles() {
  let c: u32 = kani::any();
  kani::assume(c >= 6);
  let (e, p): (u32, u32) = (kani::any(), kani::any());
  set_parsed(c, e, p, 0);
  let text = degree_text_no_third(c, e, p);
  assert!(Sat::from_degree(&text).is_err(), "C31.from_degree.no_sat_in_cycle_six_or_later");
}

/// every sat's printed degree parses back to that sat.  By C29 (proved) a sat below the supply is
/// first_sat(h) + o for exactly one (h, o) with o < subsidy(h), and its degree is
/// (h / 1 260 000, h % 210 000, h % 2016, o); so the statement is: for every such (h, o) the parser
/// accepts those four components, decides on height h and returns first_sat(h) + o.
//# props: C30
//# kind: complete (every height below 6 930 000 and every offset below its subsidy, i.e. every sat below the supply)
//# fns: Sat::from_degree
//# assume: std integer printing then parsing is the identity (u32/u64::from_str_radix stubbed to return the printed component)
//# assume: Height::starting_sat / Height::subsidy are under their C29 contract (memoised stub height_contract); Sat::degree is (h/1260000, h%210000, h%2016, o) by c29_sat_derived_attributes
//# timeout: 600
#[cfg_attr(kani, kani::proof)]
#[cfg_attr(kani, kani::unwind(36))]
#[cfg_attr(kani, kani::stub(u32::from_str_radix, stub_u32_from_str_radix))]
#[cfg_attr(kani, kani::stub(u64::from_str_radix, stub_u64_from_str_radix))]
#[cfg_attr(kani, kani::stub(Height::starting_sat, contract_starting_sat))]
#[cfg_attr(kani, kani::stub(Height::subsidy, contract_subsidy))]
pub fn c30_degree_round_trip() {
  let h: u32 = kani::any();
  let o: u64 = kani::any();
  kani::assume((h as u64) < spec::SUBSIDY_HEIGHTS);
  let (start, sub) = height_contract(h);
  kani::assume(o < sub);
  let (c, e, p) = (h / 1_260_000, h % 210_000, h % 2016);
  set_parsed(c, e, p, o);
  let text = degree_text(c, e, p, o);
  match Sat::from_degree(&text) {
    Ok(back) => {
      assert!(decided_height(back) == h, "C30.degree_parses_back_to_the_same_height");
      assert!(back.0 == start + o, "C30.degree_parses_back_to_the_same_sat");
    }
    Err(_) => assert!(false, "C30.printed_degree_is_accepted"),
  }
}

/// Sat::from_decimal never panics, accepts `height.offset` exactly when the offset is below that
/// height's subsidy, and then returns that height's first sat plus the offset.  With C29 (each sat
/// is first_sat(h) + o for exactly one such pair, and Sat::decimal prints that pair) this is both
/// "accepts only what denotes the returned sat" (C31) and "printed decimal parses back" (C30).
//# props: C31, C30
//# kind: complete (every parsed height u32 and offset u64; text shape `H.O`)
//# fns: Sat::from_decimal
//# assume: std integer parsing is under contract: u32/u64::from_str_radix may return any value (stub); printing then parsing an integer is the identity
//# assume: Height::starting_sat / Height::subsidy are under their C29 contract (memoised stub height_contract); Sat::decimal is (h, o) by c29_sat_derived_attributes
//# timeout: 600
#[cfg_attr(kani, kani::proof)]
#[cfg_attr(kani, kani::unwind(36))]
#[cfg_attr(kani, kani::stub(u32::from_str_radix, stub_u32_from_str_radix))]
#[cfg_attr(kani, kani::stub(u64::from_str_radix, stub_u64_from_str_radix))]
#[cfg_attr(kani, kani::stub(Height::starting_sat, contract_starting_sat))]
#[cfg_attr(kani, kani::stub(Height::subsidy, contract_subsidy))]
pub fn c31_from_decimal_exact() {
  let h: u32 = kani::any();
  let o: u64 = kani::any();
  set_parsed(h, h, h, o);
  let text = decimal_text(h, o);
  let (start, sub) = height_contract(h);
  match Sat::from_decimal(&text) {
    Ok(s) => {
      assert!(o < sub, "C31.from_decimal.accepted_offset_is_below_the_subsidy");
      assert!(decided_height(s) == h, "C31.from_decimal.accepted_height_is_the_parsed_one");
      assert!(s.0 == start + o && s.0 < spec::SUPPLY, "C31.from_decimal.accepted_sat_is_first_sat_of_height_plus_offset");
    }
    Err(_) => assert!(o >= sub, "C30.printed_decimal_is_accepted"),
  }
  kani::cover!(Sat::from_decimal(&text).is_ok(), "some decimal is accepted");
}

#[cfg(kani)]
fn percentile_text(_v: f64) -> String {
  String::from("1%")
}
#[cfg(not(kani))]
fn percentile_text(v: f64) -> String {
  format!("{v}%").to_uppercase()
}

/// Sat::from_percentile never panics and accepts only a finite, non-negative percentage, returning
/// the sat at that fraction of the supply (non-finite percentages are rejected).
//# props: C31
//# kind: complete (every f64 bit pattern as the parsed percentage; text shape `V%`)
//# fns: Sat::from_percentile
//# assume: std float parsing is under contract: f64::from_str may return any f64, including NaN and the infinities (stub)
//# timeout: 600
#[cfg_attr(kani, kani::proof)]
#[cfg_attr(kani, kani::unwind(36))]
#[cfg_attr(kani, kani::stub(<f64 as core::str::FromStr>::from_str, stub_f64_from_str))]
pub fn c31_from_percentile_sound() {
  let v: f64 = kani::any();
  unsafe {
    PARSED_F64 = v;
  }
  let text = percentile_text(v);
  if let Ok(s) = Sat::from_percentile(&text) {
    assert!(!v.is_nan() && !v.is_infinite(), "C31.from_percentile.non_finite_percentage_is_rejected");
    assert!(v >= 0.0, "C31.from_percentile.negative_percentage_is_rejected");
    assert!(s.0 <= Sat::LAST.0, "C31.from_percentile.accepted_sat_is_within_the_supply");
  }
  kani::cover!(Sat::from_percentile(&text).is_ok(), "some percentage is accepted");
}

// ---------------------------------------------------------------------------------------------
// C30 / C31: the name notation (bounded: the base-26 loops run over String / chars, which CBMC only
// carries for a few letters)

/// from_name on "<letter><c>" with c over ALL of Unicode: accepted exactly when c is a lowercase ASCII
/// letter, and then the sat is SUPPLY minus the modified base-26 value; anything else is an error,
/// never a panic.
//# props: C31, C30
//# kind: bounded(two-character names: one symbolic lowercase letter followed by one symbolic char over all of Unicode)
//# fns: Sat::from_name
//# tier: thorough
//# timeout: 600
#[cfg_attr(kani, kani::proof)]
#[cfg_attr(kani, kani::unwind(8))]
pub fn c31_sat_from_name_two_chars() {
  let a: u8 = kani::any();
  kani::assume(a >= b'a' && a <= b'z');
  let c: char = kani::any();
  let mut s = String::with_capacity(8);
  s.push(a as char);
  s.push(c);
  let got = Sat::from_name(&s);
  if c >= 'a' && c <= 'z' {
    let x = ((a - b'a') as u64 + 1) * 26 + (c as u64 - 'a' as u64) + 1;
    assert!(matches!(got, Ok(Sat(n)) if n == Sat::SUPPLY - x), "C31.from_name.value_is_supply_minus_base26");
  } else {
    assert!(got.is_err(), "C31.from_name.only_lowercase_ascii_letters_are_accepted");
  }
}

/// the name of each of the last 702 sats (names of one or two letters) parses back to that sat.
/// STATUS: tier manual - CBMC did not finish it in 10 minutes (String building in Sat::name); it is
/// run by neither command and counted nowhere.
//# props: C30
//# kind: bounded(the sats whose names have one or two letters: SUPPLY-702 ..= SUPPLY-1)
//# fns: Sat::name, Sat::from_name
//# tier: manual
//# timeout: 600
#[cfg_attr(kani, kani::proof)]
#[cfg_attr(kani, kani::unwind(8))]
pub fn c30_name_round_trip_short() {
  let x: u64 = kani::any();
  kani::assume(x >= 1 && x <= 26 + 26 * 26);
  let sat = Sat(Sat::SUPPLY - x);
  let name = sat.name();
  assert!(name.len() == if x <= 26 { 1 } else { 2 }, "C30.name.length_is_number_of_base26_digits");
  let back = Sat::from_name(&name);
  assert!(matches!(back, Ok(s) if s == sat), "C30.name.parses_back_to_the_same_sat");
}
