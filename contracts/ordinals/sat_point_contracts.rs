// Contracts for crates/ordinals/src/sat_point.rs (property C31: SatPoint::from_str).
#![allow(unused_imports, dead_code, static_mut_refs)]
use super::*;
#[cfg(not(kani))]
use crate::verif_contracts::kani;
use bitcoin::hashes::Hash;

static mut SP_OUTPOINT: Option<([u8; 32], u32)> = None;
static mut SP_OFFSET: Option<u64> = None;

/// contract stub for `<OutPoint as FromStr>::from_str` (bitcoin crate, not under contract here): the
/// text denotes some outpoint - the harness chooses which - or is rejected
fn stub_outpoint_from_str(_s: &str) -> Result<OutPoint, bitcoin::transaction::ParseOutPointError> {
  match unsafe { SP_OUTPOINT } {
    Some((t, v)) => Ok(OutPoint { txid: bitcoin::Txid::from_byte_array(t), vout: v }),
    None => Err(bitcoin::transaction::ParseOutPointError::Format),
  }
}
/// core::slice::memchr::memrchr by its definition (std's word-at-a-time version makes CBMC unwind
/// every loop to the bound because of pointer-alignment nondeterminism)
fn naive_memrchr(x: u8, text: &[u8]) -> Option<usize> {
  let mut i = text.len();
  while i > 0 {
    i -= 1;
    if text[i] == x {
      return Some(i);
    }
  }
  None
}

fn stub_offset(_s: &str, _r: u32) -> Result<u64, core::num::ParseIntError> {
  match unsafe { SP_OFFSET } {
    Some(v) => Ok(v),
    None => "x".parse::<u8>().map(u64::from),
  }
}

/// "OUTPOINT:OFFSET" (split at the LAST colon) is accepted exactly when both parts parse and yields
/// exactly them; a text without a colon is Error::Colon; never a panic.
//# props: C31
//# kind: complete for the text shape `TXID:VOUT:OFFSET` (every outcome of the outpoint parser and of the offset parser)
//# fns: SatPoint::from_str
//# assume: bitcoin's OutPoint::from_str and std's u64 parsing are under contract (stubs: any value or an error); core::slice::memchr::memrchr equals its naive definition (stub)
//# cbmc: --unwindset memcmp.0:40
//# timeout: 900
#[cfg_attr(kani, kani::proof)]
#[cfg_attr(kani, kani::unwind(12))]
#[cfg_attr(kani, kani::stub(<OutPoint as core::str::FromStr>::from_str, stub_outpoint_from_str))]
#[cfg_attr(kani, kani::stub(u64::from_str_radix, stub_offset))]
#[cfg_attr(kani, kani::stub(core::slice::memchr::memrchr, naive_memrchr))]
pub fn c31_satpoint_from_str() {
  let op: Option<([u8; 32], u32)> = if kani::any() { Some((kani::any(), kani::any())) } else { None };
  let off: Option<u64> = kani::any();
  unsafe {
    SP_OUTPOINT = op;
    SP_OFFSET = off;
  }
  let s = String::from("ab:1:2");
  match s.parse::<SatPoint>() {
    Ok(p) => {
      assert!(op.is_some() && off.is_some(), "C31.satpoint.accepted_only_when_both_parts_parse");
      let (t, v) = op.unwrap();
      assert!(p.outpoint.txid.to_byte_array() == t && p.outpoint.vout == v && Some(p.offset) == off, "C31.satpoint.accepted_value_is_the_parsed_outpoint_and_offset");
    }
    Err(Error::Outpoint { .. }) => assert!(op.is_none(), "C31.satpoint.outpoint_error_only_for_a_bad_outpoint"),
    Err(Error::Offset { .. }) => assert!(op.is_some() && off.is_none(), "C31.satpoint.offset_error_only_for_a_bad_offset"),
    Err(Error::Colon(_)) => assert!(false, "C31.satpoint.colon_present"),
  }
  assert!(matches!("ab".parse::<SatPoint>(), Err(Error::Colon(_))), "C31.satpoint.missing_colon_is_colon_error");
}
