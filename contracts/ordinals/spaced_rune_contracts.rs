// Contracts for crates/ordinals/src/spaced_rune.rs (properties C31, C32).
// Child module of the real `spaced_rune` module.
#![allow(unused_imports, dead_code)]
use super::*;
#[cfg(not(kani))]
use crate::verif_contracts::kani;

/// `k` letters 'A', a spacer, one more letter
fn name_with_spacer_after(k: usize) -> String {
  let mut s = String::with_capacity(k + 2);
  let mut i = 0;
  while i < k {
    s.push('A');
    i += 1;
  }
  s.push('.');
  s.push('A');
  s
}

/// The spacer flag is `1 << (letters so far - 1)` in a u32: the parser must stay total whatever the
/// number of letters before a spacer (structure-dependent quantity: one concrete string per letter
/// count on each side of the 32-bit boundary; the text is concrete, so symbolic execution is exact).
fn spacer_after(k: usize) {
  let s = name_with_spacer_after(k);
  #[cfg(not(kani))]
  eprintln!("REPLAY-INPUT: SpacedRune::from_str({s:?})");
  let r = s.parse::<SpacedRune>();
  match r {
    Ok(sr) => {
      // accepted only if the name really has k + 1 letters 'A' and the spacer sits after letter k
      assert!(k <= 27, "C31.spaced_rune.accepts_only_names_that_fit_u128");
      assert!(sr.spacers == 1u32 << (k - 1), "C31.spaced_rune.spacer_bit_is_position_of_preceding_letter");
    }
    Err(_) => assert!(k > 27, "C32.spaced_rune.valid_name_with_spacer_is_accepted"),
  }
}

macro_rules! spacer_harness {
  ($name:ident, $k:expr) => {
    #[cfg_attr(kani, kani::proof)]
    #[cfg_attr(kani, kani::unwind(40))]
    pub fn $name() {
      spacer_after($k);
    }
  };
}

//# props: C31, C32
//# kind: bounded(one concrete name: 1 letter before the spacer)
//# fns: SpacedRune::from_str
spacer_harness!(c31_spaced_rune_spacer_after_1, 1);

//# props: C31, C32
//# kind: bounded(one concrete name: 27 letters before the spacer - the longest valid name)
//# fns: SpacedRune::from_str
spacer_harness!(c31_spaced_rune_spacer_after_27, 27);

//# props: C31
//# kind: bounded(one concrete name: 32 letters before the spacer - last shift amount that fits a u32)
//# fns: SpacedRune::from_str
spacer_harness!(c31_spaced_rune_spacer_after_32, 32);

//# props: C31
//# kind: bounded(one concrete name: 33 letters before the spacer - shift amount 32)
//# fns: SpacedRune::from_str
spacer_harness!(c31_spaced_rune_spacer_after_33, 33);

//# props: C31
//# kind: bounded(one concrete name: 34 letters before the spacer)
//# fns: SpacedRune::from_str
spacer_harness!(c31_spaced_rune_spacer_after_34, 34);

/// structural errors: leading spacer, double spacer, trailing spacer, foreign character
//# props: C31
//# kind: bounded(five concrete strings, one per error kind)
//# fns: SpacedRune::from_str
#[cfg_attr(kani, kani::proof)]
#[cfg_attr(kani, kani::unwind(12))]
pub fn c31_spaced_rune_structural_errors() {
  assert!(".A".parse::<SpacedRune>() == Err(Error::LeadingSpacer), "C31.spaced_rune.leading_spacer_rejected");
  assert!("A..B".parse::<SpacedRune>() == Err(Error::DoubleSpacer), "C31.spaced_rune.double_spacer_rejected");
  assert!("AB.".parse::<SpacedRune>() == Err(Error::TrailingSpacer), "C31.spaced_rune.trailing_spacer_rejected");
  assert!("Ab".parse::<SpacedRune>() == Err(Error::Character('b')), "C31.spaced_rune.foreign_character_rejected");
  assert!("".parse::<SpacedRune>().is_err(), "C31.spaced_rune.empty_rejected");
}
