// Shared spec functions for the `ordinals` crate contracts: closed forms taken from the BIP and the
// runes specification, NOT from ord's tables.  Used only inside assertions.
#![allow(dead_code)]

pub const HALVING: u64 = 210_000;
pub const COIN: u64 = 100_000_000;
pub const SUPPLY: u64 = 2_099_999_997_690_000;
pub const LAST_SUBSIDY_HEIGHT: u64 = 33 * HALVING; // first height with zero subsidy

/// block subsidy at height h (BIP / Bitcoin consensus): 50 BTC halved every 210 000 blocks.
pub fn subsidy(h: u64) -> u64 {
  let e = h / HALVING;
  if e >= 64 { 0 } else { (50 * COIN) >> e }
}
