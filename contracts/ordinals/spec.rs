// Shared spec functions for the `ordinals` crate contracts: closed forms taken from the BIP and the
// runes specification, NOT from ord's tables.  Used only inside assertions.
#![allow(dead_code)]

pub const HALVING: u64 = 210_000;
pub const COIN: u64 = 100_000_000;
pub const SUPPLY: u64 = 2_099_999_997_690_000;
pub const LAST_SUBSIDY_HEIGHT: u64 = 33 * HALVING; // first height with zero subsidy

/// block subsidy at height h (BIP / Bitcoin consensus): 50 BTC halved every 210 000 blocks.
pub fn subsidy(h: u64) -> u64 {
  let e = h / HALVING;
  if e >= 64 { 0 } else { (50 * COIN) >> e }
}

pub const SUBSIDY_HEIGHTS: u64 = 33 * HALVING; // 6 930 000 heights carry a subsidy

/// first sat of halving epoch e: 210 000 blocks of each earlier subsidy.
pub fn epoch_start(e: u64) -> u64 {
  let mut sum: u64 = 0;
  let mut i: u64 = 0;
  while i < 33 {
    if i < e {
      sum += HALVING * ((50 * COIN) >> i);
    }
    i += 1;
  }
  sum
}

/// first sat mined at height h, given its epoch e == h / HALVING (closed form).
pub fn first_sat_e(e: u64, h: u64) -> u64 {
  if e >= 33 { epoch_start(33) } else { epoch_start(e) + (h - e * HALVING) * ((50 * COIN) >> e) }
}

/// first sat mined at height h: sum of all earlier subsidies.
pub fn first_sat(h: u64) -> u64 {
  first_sat_e(h / HALVING, h)
}

/// rarity as documented (docs/src/overview.md): a function of height and offset only.
/// 0 common, 1 uncommon, 2 rare, 3 epic, 4 legendary, 5 mythic
pub fn rarity_code(h: u64, o: u64) -> u8 {
  if o != 0 {
    0
  } else if h == 0 {
    5
  } else if h % (6 * HALVING) == 0 {
    // first sat of a cycle: halving and difficulty adjustment coincide every 6 halvings
    4
  } else if h % HALVING == 0 {
    3
  } else if h % 2016 == 0 {
    2
  } else {
    1
  }
}
