// Contracts for crates/ordinals/src/varint.rs (property C26).
// Compiled as a child module of the real `varint` module (see tools/overlay.py).
//
// Spec vocabulary (used only inside assertions):
//   first_terminator(buf)  index of the first byte with bit 7 clear
//   leb(buf)               Some((value, length)) of the first terminated LEB128 group when the
//                          terminator is among the first 19 bytes and the value fits 128 bits
#![allow(unused_imports, dead_code)]
use super::*;
#[cfg(not(kani))]
use crate::verif_contracts::kani;

pub(crate) fn first_terminator(buf: &[u8]) -> Option<usize> {
  let mut i = 0;
  while i < buf.len() {
    if buf[i] & 0x80 == 0 {
      return Some(i);
    }
    i += 1;
  }
  None
}

/// value of the first terminated group, by the LEB128 definition: sum of (byte & 0x7f) * 128^i.
/// None when there is no terminator among the first 19 bytes, or the sum needs more than 128 bits.
pub(crate) fn leb(buf: &[u8]) -> Option<(u128, usize)> {
  let t = first_terminator(buf)?;
  if t > 18 {
    return None;
  }
  let mut n: u128 = 0;
  let mut i = 0;
  while i <= t {
    let group = (buf[i] & 0x7f) as u128;
    if i == 18 {
      // 18 * 7 = 126 bits below: only two bits of the 19th group fit
      if group > 3 {
        return None;
      }
    }
    n += group << (7 * i as u32);
    i += 1;
  }
  Some((n, t + 1))
}

pub(crate) fn minimal_len(n: u128) -> usize {
  let bits = (128 - n.leading_zeros()) as usize;
  if bits == 0 { 1 } else { (bits + 6) / 7 }
}

const MAXLEN: usize = 24;

/// decode: for every byte string of length 0..=24 (the loop provably exits by index 19, so longer
/// strings behave as their 20-byte prefix: unwinding assertion) the result is exactly the first
/// terminated group, or an error whose kind is truthful. Never a truncated value.
//# props: C26, C16
//# kind: complete (all byte strings: symbolic length 0..=24, loop provably exits by index 19 - unwinding assertion)
//# fns: varint::decode
#[cfg_attr(kani, kani::proof)]
#[cfg_attr(kani, kani::unwind(26))]
pub fn c26_decode_exact() {
  let arr: [u8; MAXLEN] = kani::any();
  let len: usize = kani::any();
  kani::assume(len <= MAXLEN);
  let buf = &arr[..len];
  let spec = leb(buf);
  let got = decode(buf);
  match got {
    Ok((n, l)) => {
      assert!(spec == Some((n, l)), "C26.decode.ok_is_first_terminated_group");
    }
    Err(Error::Unterminated) => {
      assert!(spec.is_none(), "C26.decode.err_only_when_no_value");
      assert!(first_terminator(buf).is_none(), "C26.decode.unterminated_truthful");
    }
    Err(Error::Overlong) => {
      assert!(spec.is_none(), "C26.decode.err_only_when_no_value");
      assert!(
        match first_terminator(buf) { None => len > 18, Some(t) => t > 18 },
        "C26.decode.overlong_truthful"
      );
    }
    Err(Error::Overflow) => {
      assert!(spec.is_none(), "C26.decode.err_only_when_no_value");
      assert!(len > 18 && arr[18] & 0x7c != 0, "C26.decode.overflow_truthful");
    }
  }
  kani::cover!(matches!(got, Ok((_, 19))), "ok with 19 groups");
  kani::cover!(matches!(got, Err(Error::Overlong)), "overlong");
  kani::cover!(matches!(got, Err(Error::Overflow)), "overflow");
  kani::cover!(matches!(got, Err(Error::Unterminated)) && len == 19, "unterminated at 19");
}

/// decode reads nothing past the terminator: two buffers that agree up to and including the first
/// terminator decode identically.
//# props: C26
//# kind: complete (two symbolic 24-byte buffers)
//# fns: varint::decode
#[cfg_attr(kani, kani::proof)]
#[cfg_attr(kani, kani::unwind(26))]
pub fn c26_decode_ignores_suffix() {
  let a: [u8; MAXLEN] = kani::any();
  let b: [u8; MAXLEN] = kani::any();
  let t: usize = kani::any();
  kani::assume(t < MAXLEN);
  kani::assume(first_terminator(&a) == Some(t));
  let mut i = 0;
  while i <= t {
    kani::assume(a[i] == b[i]);
    i += 1;
  }
  let ra = decode(&a);
  let rb = decode(&b);
  assert!(ra == rb, "C26.decode.suffix_independent");
}

/// encode: canonical LEB128 for every u128.
//# props: C26
//# kind: complete (all u128; loop bounded by operand width, unwinding assertion)
//# fns: varint::encode, varint::encode_to_vec
#[cfg_attr(kani, kani::proof)]
#[cfg_attr(kani, kani::unwind(21))]
pub fn c26_encode_canonical() {
  let n: u128 = kani::any();
  let v = encode(n);
  let len = v.len();
  assert!(len >= 1 && len <= 19, "C26.encode.length_1_to_19");
  assert!(len == minimal_len(n), "C26.encode.minimal_length");
  let mut i = 0;
  while i + 1 < len {
    assert!(v[i] & 0x80 != 0, "C26.encode.continuation_bits");
    i += 1;
  }
  assert!(v[len - 1] & 0x80 == 0, "C26.encode.last_byte_terminates");
  assert!(leb(&v) == Some((n, len)), "C26.encode.value_is_n");
  kani::cover!(len == 19, "19-byte encoding");
  kani::cover!(len == 1, "1-byte encoding");
}

/// encode_to_vec appends and leaves the existing prefix alone (frame).
//# props: C26
//# kind: complete (all u128)
//# fns: varint::encode_to_vec
#[cfg_attr(kani, kani::proof)]
#[cfg_attr(kani, kani::unwind(21))]
pub fn c26_encode_to_vec_frame() {
  let n: u128 = kani::any();
  let p0: u8 = kani::any();
  let p1: u8 = kani::any();
  let mut v = Vec::new();
  v.push(p0);
  v.push(p1);
  encode_to_vec(n, &mut v);
  assert!(v[0] == p0 && v[1] == p1, "C26.encode_to_vec.prefix_unchanged");
  assert!(v.len() == 2 + minimal_len(n), "C26.encode_to_vec.appends_exactly_encoding");
  assert!(leb(&v[2..]) == Some((n, v.len() - 2)), "C26.encode_to_vec.value_is_n");
}

/// the round trip itself, stub-free, all u128.
//# props: C26
//# kind: complete (all u128, stub-free)
//# fns: varint::encode, varint::decode
#[cfg_attr(kani, kani::proof)]
#[cfg_attr(kani, kani::unwind(21))]
pub fn c26_round_trip() {
  let n: u128 = kani::any();
  let v = encode(n);
  let r = decode(&v);
  assert!(r == Ok((n, v.len())), "C26.round_trip");
}

/// canary: a deliberately false postcondition; the driver requires it to FAIL.
#[cfg_attr(kani, kani::proof)]
#[cfg_attr(kani, kani::unwind(21))]
pub fn canary_e1_must_fail() {
  let n: u128 = kani::any();
  let v = encode(n);
  assert!(v.len() < 19, "CANARY.encode_shorter_than_19");
}
