// Root of the verification overlay inside the `ordinals` crate, variant E1S (std HashMap redirected
// to an association-list shim; see tools/overlay.py).
#![allow(unused_imports, dead_code)]
use super::*;

#[cfg(not(kani))]
#[path = "/verif/contracts/support/kani_shim.rs"]
pub mod kani;

#[cfg(not(kani))]
#[path = "/verif/.work/e1s/registry.rs"]
pub mod registry;
