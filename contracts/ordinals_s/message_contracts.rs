// Contracts for crates/ordinals/src/runestone/message.rs (property C25: "the first message-structure
// error (truncated field, trailing integers, bad edict rune ID, bad edict output)").
// Engine E1S: the real file, with std's HashMap replaced by an association-list shim.
#![allow(unused_imports, dead_code)]
use super::*;
#[cfg(not(kani))]
use crate::verif_contracts::kani;
use bitcoin::{Amount, TxOut, absolute::LockTime, transaction::Version};

fn tx_with_outputs(n: usize) -> Transaction {
  let mut output = Vec::with_capacity(4);
  let mut i = 0;
  while i < n {
    output.push(TxOut { value: Amount::from_sat(0), script_pubkey: ScriptBuf::new() });
    i += 1;
  }
  Transaction { version: Version(2), lock_time: LockTime::ZERO, input: Vec::new(), output }
}

/// what the specification says about a message body: scan 4-tuples in order; the FIRST problem met
/// decides the flaw; edicts before it are kept
fn spec_body(body: &[u128], outputs: u32) -> (Option<Flaw>, usize) {
  let mut id = RuneId::default();
  let mut kept = 0;
  let mut i = 0;
  while i < body.len() {
    if body.len() - i < 4 {
      return (Some(Flaw::TrailingIntegers), kept);
    }
    let Some(next) = id.next(body[i], body[i + 1]) else {
      return (Some(Flaw::EdictRuneId), kept);
    };
    if body[i + 3] > u128::from(outputs) {
      return (Some(Flaw::EdictOutput), kept);
    }
    id = next;
    kept += 1;
    i += 4;
  }
  (None, kept)
}

/// A body (tag 0) followed by `N` integers: the flaw is the first violation in scan order and the
/// edicts are exactly the well-formed 4-tuples before it, delta-decoded.
fn body_shape<const N: usize>() {
  let outputs: u8 = kani::any();
  kani::assume(outputs <= 3);
  let tx = tx_with_outputs(outputs as usize);
  let body: [u128; N] = kani::any();
  let mut payload = [0u128; 10];
  let mut i = 0;
  while i < N {
    payload[1 + i] = body[i];
    i += 1;
  }
  let m = Message::from_integers(&tx, &payload[..1 + N]);
  let (flaw, kept) = spec_body(&body, u32::from(outputs));
  assert!(m.flaw == flaw, "C25.message.flaw_is_first_violation_in_scan_order");
  assert!(m.edicts.len() == kept, "C25.message.edicts_are_the_tuples_before_the_flaw");
  assert!(m.fields.is_empty(), "C25.message.body_adds_no_fields");
  if kept >= 1 {
    let first = RuneId::default().next(body[0], body[1]).unwrap();
    assert!(m.edicts[0] == Edict { id: first, amount: body[2], output: body[3] as u32 }, "C25.message.first_edict_fields");
    if kept >= 2 {
      let second = first.next(body[4], body[5]).unwrap();
      assert!(m.edicts[1] == Edict { id: second, amount: body[6], output: body[7] as u32 }, "C25.message.second_edict_is_delta_decoded");
    }
  }
  std::mem::forget(m);
  std::mem::forget(tx);
}

macro_rules! body_harness {
  ($name:ident, $n:expr) => {
    #[cfg_attr(kani, kani::proof)]
    #[cfg_attr(kani, kani::unwind(12))]
    pub fn $name() {
      body_shape::<$n>();
    }
  };
}

//# props: C25
//# kind: bounded(message body of 4 integers - one edict; every integer and the output count 0..=3 symbolic)
//# fns: runestone::message::Message::from_integers
//# assume: std::collections::HashMap behaves as a finite map (association-list shim, engine E1S)
//# timeout: 600
body_harness!(c25_message_body_4, 4);

//# props: C25
//# kind: bounded(message body of 6 integers - one edict and two trailing integers)
//# fns: runestone::message::Message::from_integers
//# assume: std::collections::HashMap behaves as a finite map (association-list shim, engine E1S)
//# timeout: 600
body_harness!(c25_message_body_6, 6);

//# props: C25
//# kind: bounded(message body of 8 integers - two edicts)
//# fns: runestone::message::Message::from_integers
//# assume: std::collections::HashMap behaves as a finite map (association-list shim, engine E1S)
//# timeout: 600
body_harness!(c25_message_body_8, 8);

//# props: C25
//# kind: bounded(message body of 9 integers - two edicts and one trailing integer)
//# fns: runestone::message::Message::from_integers
//# assume: std::collections::HashMap behaves as a finite map (association-list shim, engine E1S)
//# timeout: 600
body_harness!(c25_message_body_9, 9);

/// fields before the body: tag/value pairs are collected per tag in order of appearance; an odd
/// number of integers without a body is a truncated field (the dangling tag is dropped).
/// Shape (number of integers) concrete per harness, every integer symbolic.
fn fields_shape<const N: usize>() {
  let tx = tx_with_outputs(1);
  let p: [u128; N] = kani::any();
  // no body tag in this shape (bodies are covered by c25_message_body_*)
  let mut i = 0;
  while i < N {
    if i % 2 == 0 {
      kani::assume(p[i] != 0);
    }
    i += 1;
  }
  let m = Message::from_integers(&tx, &p);
  assert!(m.flaw == if N % 2 == 1 { Some(Flaw::TruncatedField) } else { None }, "C25.message.dangling_tag_is_truncated_field");
  assert!(m.edicts.is_empty(), "C25.message.no_edicts_without_body");
  let pairs = N / 2;
  if pairs == 0 {
    assert!(m.fields.is_empty(), "C25.message.no_pairs_no_fields");
  } else if pairs == 1 || p[0] != p[2] {
    assert!(m.fields.len() == pairs, "C25.message.one_entry_per_distinct_tag");
    let f0 = m.fields.get(&p[0]);
    assert!(f0.is_some() && f0.unwrap().len() == 1 && f0.unwrap()[0] == p[1], "C25.message.field_value_kept");
    if pairs == 2 {
      let f1 = m.fields.get(&p[2]);
      assert!(f1.is_some() && f1.unwrap().len() == 1 && f1.unwrap()[0] == p[3], "C25.message.second_field_value_kept");
    }
  } else {
    assert!(m.fields.len() == 1, "C25.message.repeated_tag_shares_one_entry");
    let f = m.fields.get(&p[0]).unwrap();
    assert!(f.len() == 2 && f[0] == p[1] && f[1] == p[3], "C25.message.repeated_tag_values_in_order");
  }
  std::mem::forget(m);
  std::mem::forget(tx);
}

macro_rules! fields_harness {
  ($name:ident, $n:expr) => {
    #[cfg_attr(kani, kani::proof)]
    #[cfg_attr(kani, kani::unwind(12))]
    pub fn $name() {
      fields_shape::<$n>();
    }
  };
}

//# props: C25
//# kind: bounded(1 integer: a dangling tag)
//# fns: runestone::message::Message::from_integers
//# assume: std::collections::HashMap behaves as a finite map (association-list shim, engine E1S)
//# timeout: 600
fields_harness!(c25_message_fields_1, 1);

//# props: C25
//# kind: bounded(2 integers: one tag/value pair)
//# fns: runestone::message::Message::from_integers
//# assume: std::collections::HashMap behaves as a finite map (association-list shim, engine E1S)
//# timeout: 600
fields_harness!(c25_message_fields_2, 2);

//# props: C25
//# kind: bounded(3 integers: one pair and a dangling tag)
//# fns: runestone::message::Message::from_integers
//# assume: std::collections::HashMap behaves as a finite map (association-list shim, engine E1S)
//# timeout: 600
fields_harness!(c25_message_fields_3, 3);

//# props: C25
//# kind: bounded(4 integers: two pairs, same or different tags)
//# fns: runestone::message::Message::from_integers
//# assume: std::collections::HashMap behaves as a finite map (association-list shim, engine E1S)
//# timeout: 600
fields_harness!(c25_message_fields_4, 4);

/// canary: a deliberately false postcondition; the driver requires it to FAIL.
#[cfg_attr(kani, kani::proof)]
#[cfg_attr(kani, kani::unwind(12))]
pub fn canary_e1s_must_fail() {
  let tx = tx_with_outputs(1);
  let p: [u128; 2] = [0, kani::any()];
  let m = Message::from_integers(&tx, &p);
  assert!(m.flaw.is_none(), "CANARY.one_trailing_integer_is_no_flaw");
  std::mem::forget(m);
  std::mem::forget(tx);
}
