// Contracts for crates/ordinals/src/runestone.rs on engine E1S (property C25, C16: deciphering never
// panics).  NOTE: Kani 0.68 cannot read the discriminant of `Artifact` (internal compiler error,
// DESIGN 0.6), so the RESULT of decipher cannot be inspected by a harness; what is checked here is
// that every operation inside decipher (field decoding, flag handling, supply computation, pointer
// range test) is free of panics and overflows for every message.
//
// STATUS: thorough tier, three at a time (`jobs: 3`): each harness needs about 13 GB of CBMC memory
// and 10 minutes (measured: c25_decipher_divisibility 559 s).
#![allow(unused_imports, dead_code, static_mut_refs)]
use super::*;
#[cfg(not(kani))]
use crate::verif_contracts::kani;
use bitcoin::{Amount, TxOut, absolute::LockTime, transaction::Version};

static mut INTEGERS: [u128; 8] = [0; 8];
static mut INTEGERS_N: usize = 0;

/// contract stub for Runestone::payload: "some output carries a runestone payload" (its bytes do not
/// matter: integers() is stubbed as well)
fn stub_payload(_transaction: &Transaction) -> Option<Payload> {
  Some(Payload::Valid(Vec::new()))
}

/// contract stub for Runestone::integers (its own contract is the Verus unit runestone_integers):
/// any sequence of integers, here of the harness-chosen length
fn stub_integers(_payload: &[u8]) -> Result<Vec<u128>, varint::Error> {
  let mut v = Vec::with_capacity(8);
  let mut i = 0;
  unsafe {
    while i < INTEGERS_N {
      v.push(INTEGERS[i]);
      i += 1;
    }
  }
  Ok(v)
}

fn decipher_shape<const N: usize>() {
  let mut output = Vec::with_capacity(2);
  output.push(TxOut { value: Amount::from_sat(0), script_pubkey: ScriptBuf::new() });
  let tx = Transaction { version: Version(2), lock_time: LockTime::ZERO, input: Vec::new(), output };
  let p: [u128; N] = kani::any();
  unsafe {
    let mut i = 0;
    while i < N {
      INTEGERS[i] = p[i];
      i += 1;
    }
    INTEGERS_N = N;
  }
  let r = Runestone::decipher(&tx);
  std::mem::forget(r);
  std::mem::forget(tx);
}

// ---- observing what decipher decoded: Etching::supply(&self) is called on the decoded etching
// (its own contract: c25_etching_supply, E1); the stub records the Etching it is called with.

static mut SEEN: Option<Etching> = None;
static mut SEEN_CALLS: usize = 0;

fn recording_supply(e: &Etching) -> Option<u128> {
  unsafe {
    SEEN = Some(*e);
    SEEN_CALLS += 1;
  }
  kani::any()
}

/// payload [Flags, flags, TAG, value]: decipher with the etching flag set decodes exactly the field
/// named by TAG (when the value is in range for it) and leaves every other etching field absent.
fn etching_field(tag: u128, value: u128, flags: u128) -> Etching {
  let mut output = Vec::with_capacity(2);
  output.push(TxOut { value: Amount::from_sat(0), script_pubkey: ScriptBuf::new() });
  let tx = Transaction { version: Version(2), lock_time: LockTime::ZERO, input: Vec::new(), output };
  unsafe {
    INTEGERS[0] = 2; // Tag::Flags
    INTEGERS[1] = flags;
    INTEGERS[2] = tag;
    INTEGERS[3] = value;
    INTEGERS_N = 4;
    SEEN = None;
    SEEN_CALLS = 0;
  }
  let r = Runestone::decipher(&tx);
  std::mem::forget(r);
  std::mem::forget(tx);
  unsafe {
    assert!(SEEN_CALLS == 1 && SEEN.is_some(), "C25.decipher.etching_flag_yields_an_etching");
    SEEN.unwrap()
  }
}

macro_rules! field_harness {
  ($name:ident, $tag:expr, $with_terms:expr, |$v:ident, $e:ident| $check:block) => {
    #[cfg_attr(kani, kani::proof)]
    #[cfg_attr(kani, kani::unwind(12))]
    #[cfg_attr(kani, kani::stub(Runestone::payload, stub_payload))]
    #[cfg_attr(kani, kani::stub(Runestone::integers, stub_integers))]
    #[cfg_attr(kani, kani::stub(Etching::supply, recording_supply))]
    pub fn $name() {
      let $v: u128 = kani::any();
      let turbo: bool = kani::any();
      let flags: u128 = 1 | if $with_terms { 2 } else { 0 } | if turbo { 4 } else { 0 };
      let $e = etching_field($tag, $v, flags);
      assert!($e.turbo == turbo, "C25.decipher.turbo_flag_decoded");
      assert!($e.terms.is_some() == $with_terms, "C25.decipher.terms_flag_decoded");
      $check
    }
  };
}

//# props: C25
//# tier: thorough
//# jobs: 3
//# kind: bounded(message [Flags, f, Divisibility, v] with every v and the turbo flag symbolic)
//# fns: Runestone::decipher
//# assume: Runestone::payload / integers are stubbed by their contracts (any integer sequence); Etching::supply is replaced by a recording stub (its own contract: c25_etching_supply); HashMap / VecDeque are shims (engine E1S)
//# timeout: 900
field_harness!(c25_decipher_divisibility, 1, false, |v, e| {
  assert!(e.divisibility == if v <= 38 { Some(v as u8) } else { None }, "C25.decipher.divisibility_accepted_up_to_38_inclusive");
  assert!(e.premine.is_none() && e.rune.is_none() && e.spacers.is_none() && e.symbol.is_none(), "C25.decipher.other_fields_absent");
});

//# props: C25
//# tier: thorough
//# jobs: 3
//# kind: bounded(message [Flags, f, Spacers, v])
//# fns: Runestone::decipher
//# assume: payload / integers / supply stubbed as in c25_decipher_divisibility; E1S shims
//# timeout: 900
field_harness!(c25_decipher_spacers, 3, false, |v, e| {
  assert!(e.spacers == if v <= 0b00000111_11111111_11111111_11111111 { Some(v as u32) } else { None }, "C25.decipher.spacers_accepted_up_to_max_spacers");
  assert!(e.divisibility.is_none() && e.premine.is_none() && e.rune.is_none() && e.symbol.is_none(), "C25.decipher.other_fields_absent");
});

//# props: C25
//# tier: thorough
//# jobs: 3
//# kind: bounded(message [Flags, f, Symbol, v])
//# fns: Runestone::decipher
//# assume: payload / integers / supply stubbed as in c25_decipher_divisibility; E1S shims
//# timeout: 900
field_harness!(c25_decipher_symbol, 5, false, |v, e| {
  let want = if v <= u32::MAX as u128 { char::from_u32(v as u32) } else { None };
  assert!(e.symbol == want, "C25.decipher.symbol_is_the_unicode_scalar_or_absent");
});

//# props: C25
//# tier: thorough
//# jobs: 3
//# kind: bounded(message [Flags, f, Rune, v] and [Flags, f, Premine, v])
//# fns: Runestone::decipher
//# assume: payload / integers / supply stubbed as in c25_decipher_divisibility; E1S shims
//# timeout: 900
field_harness!(c25_decipher_rune, 4, false, |v, e| {
  assert!(e.rune == Some(Rune(v)) && e.premine.is_none(), "C25.decipher.rune_name_kept");
});

//# props: C25
//# tier: thorough
//# jobs: 3
//# kind: bounded(message [Flags, f, Premine, v])
//# fns: Runestone::decipher
//# assume: payload / integers / supply stubbed as in c25_decipher_divisibility; E1S shims
//# timeout: 900
field_harness!(c25_decipher_premine, 6, false, |v, e| {
  assert!(e.premine == Some(v) && e.rune.is_none(), "C25.decipher.premine_kept");
});

//# props: C25
//# tier: thorough
//# jobs: 3
//# kind: bounded(message [Flags, f, Cap, v] with the terms flag)
//# fns: Runestone::decipher
//# assume: payload / integers / supply stubbed as in c25_decipher_divisibility; E1S shims
//# timeout: 900
field_harness!(c25_decipher_terms_cap, 8, true, |v, e| {
  let t = e.terms.unwrap();
  assert!(t.cap == Some(v) && t.amount.is_none() && t.height == (None, None) && t.offset == (None, None), "C25.decipher.cap_kept");
});

//# props: C25
//# tier: thorough
//# jobs: 3
//# kind: bounded(message [Flags, f, Amount, v] with the terms flag)
//# fns: Runestone::decipher
//# assume: payload / integers / supply stubbed as in c25_decipher_divisibility; E1S shims
//# timeout: 900
field_harness!(c25_decipher_terms_amount, 10, true, |v, e| {
  let t = e.terms.unwrap();
  assert!(t.amount == Some(v) && t.cap.is_none(), "C25.decipher.amount_kept");
});

//# props: C25
//# tier: thorough
//# jobs: 3
//# kind: bounded(message [Flags, f, HeightEnd, v] with the terms flag)
//# fns: Runestone::decipher
//# assume: payload / integers / supply stubbed as in c25_decipher_divisibility; E1S shims
//# timeout: 900
field_harness!(c25_decipher_terms_height_end, 14, true, |v, e| {
  let t = e.terms.unwrap();
  assert!(t.height == (None, if v <= u64::MAX as u128 { Some(v as u64) } else { None }), "C25.decipher.height_end_in_u64_or_absent");
});

//# props: C25
//# tier: thorough
//# jobs: 3
//# kind: bounded(message [Flags, f, OffsetStart, v] with the terms flag)
//# fns: Runestone::decipher
//# assume: payload / integers / supply stubbed as in c25_decipher_divisibility; E1S shims
//# timeout: 900
field_harness!(c25_decipher_terms_offset_start, 16, true, |v, e| {
  let t = e.terms.unwrap();
  assert!(t.offset == (if v <= u64::MAX as u128 { Some(v as u64) } else { None }, None), "C25.decipher.offset_start_in_u64_or_absent");
});

/// without the terms flag the terms tags are not consumed (they stay in the field table and make
/// the runestone a cenotaph); the etching has no terms
//# props: C25
//# tier: thorough
//# jobs: 3
//# kind: bounded(message [Flags, f, Cap, v] without the terms flag)
//# fns: Runestone::decipher
//# assume: payload / integers / supply stubbed as in c25_decipher_divisibility; E1S shims
//# timeout: 900
field_harness!(c25_decipher_no_terms_flag, 8, false, |v, e| {
  let _ = v;
  assert!(e.terms.is_none(), "C25.decipher.no_terms_without_flag");
});

/// deciphering never panics: every message of 0..=6 integers (any tags, any values, any flags)
fn never_panics<const N: usize>() {
  decipher_shape::<N>();
}

//# props: C25, C16
//# tier: thorough
//# jobs: 3
//# kind: bounded(every message of exactly 5 integers - fields, flags, a body, anything)
//# fns: Runestone::decipher
//# assume: Runestone::payload / integers stubbed by their contracts; E1S shims
//# timeout: 900
#[cfg_attr(kani, kani::proof)]
#[cfg_attr(kani, kani::unwind(12))]
#[cfg_attr(kani, kani::stub(Runestone::payload, stub_payload))]
#[cfg_attr(kani, kani::stub(Runestone::integers, stub_integers))]
pub fn c25_decipher_never_panics_5() {
  never_panics::<5>();
}

//# props: C25, C16
//# tier: thorough
//# jobs: 3
//# kind: bounded(every message of exactly 2 integers)
//# fns: Runestone::decipher
//# assume: Runestone::payload / integers stubbed by their contracts; E1S shims
//# timeout: 900
#[cfg_attr(kani, kani::proof)]
#[cfg_attr(kani, kani::unwind(12))]
#[cfg_attr(kani, kani::stub(Runestone::payload, stub_payload))]
#[cfg_attr(kani, kani::stub(Runestone::integers, stub_integers))]
pub fn c25_decipher_never_panics_2() {
  never_panics::<2>();
}
