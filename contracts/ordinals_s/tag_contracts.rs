// Contracts for crates/ordinals/src/runestone/tag.rs (property C25: field decoding).  Engine E1S.
#![allow(unused_imports, dead_code)]
use super::*;
#[cfg(not(kani))]
use crate::verif_contracts::kani;

/// Tag::take::<1>: takes the FIRST value recorded for the tag if the decoder accepts it (later
/// duplicates stay and make an even tag "unrecognized"), removes the entry when it becomes empty,
/// and consumes nothing when the decoder refuses or the tag is absent.
//# props: C25
//# kind: bounded(one tag with 1 or 2 recorded values plus one unrelated tag; values and the decoder's verdict symbolic)
//# fns: runestone::tag::Tag::take
//# assume: std::collections::HashMap behaves as a finite map (association-list shim, engine E1S)
//# timeout: 600
#[cfg_attr(kani, kani::proof)]
#[cfg_attr(kani, kani::unwind(8))]
pub fn c25_tag_take_first_value() {
  let mut fields: HashMap<u128, VecDeque<u128>> = HashMap::new();
  let present: bool = kani::any();
  let two: bool = kani::any();
  let (v0, v1, w): (u128, u128, u128) = (kani::any(), kani::any(), kani::any());
  if present {
    let q = fields.entry(Tag::Divisibility.into()).or_default();
    q.push_back(v0);
    if two {
      q.push_back(v1);
    }
  }
  fields.entry(Tag::Nop.into()).or_default().push_back(w);
  let accept: bool = kani::any();
  let got = Tag::Divisibility.take(&mut fields, |[x]| if accept { Some(x) } else { None });
  if present && accept {
    assert!(got == Some(v0), "C25.tag_take.returns_first_recorded_value");
    let rest = fields.get(&Tag::Divisibility.into());
    if two {
      assert!(rest.is_some() && rest.unwrap().len() == 1 && rest.unwrap()[0] == v1, "C25.tag_take.later_values_stay");
    } else {
      assert!(rest.is_none(), "C25.tag_take.empty_entry_is_removed");
    }
  } else {
    assert!(got.is_none(), "C25.tag_take.absent_or_refused_yields_nothing");
    let rest = fields.get(&Tag::Divisibility.into());
    assert!(rest.is_some() == present, "C25.tag_take.refused_value_is_not_consumed");
    if present {
      assert!(rest.unwrap().len() == if two { 2 } else { 1 } && rest.unwrap()[0] == v0, "C25.tag_take.refused_value_is_not_consumed");
    }
  }
  let other = fields.get(&Tag::Nop.into());
  assert!(other.is_some() && other.unwrap().len() == 1 && other.unwrap()[0] == w, "C25.tag_take.other_tags_untouched");
  std::mem::forget(fields);
}

/// Tag::take::<2> (the mint field): needs two values, takes both or none
//# props: C25
//# kind: bounded(one tag with 1, 2 or 3 recorded values; values symbolic)
//# fns: runestone::tag::Tag::take
//# assume: std::collections::HashMap behaves as a finite map (association-list shim, engine E1S)
//# timeout: 600
#[cfg_attr(kani, kani::proof)]
#[cfg_attr(kani, kani::unwind(8))]
pub fn c25_tag_take_pair() {
  let mut fields: HashMap<u128, VecDeque<u128>> = HashMap::new();
  let n: u8 = kani::any();
  kani::assume(n >= 1 && n <= 3);
  let v: [u128; 3] = kani::any();
  {
    let q = fields.entry(Tag::Mint.into()).or_default();
    let mut i = 0;
    while i < n as usize {
      q.push_back(v[i]);
      i += 1;
    }
  }
  let got = Tag::Mint.take(&mut fields, |[a, b]| Some((a, b)));
  if n >= 2 {
    assert!(got == Some((v[0], v[1])), "C25.tag_take.pair_is_first_two_values");
    let rest = fields.get(&Tag::Mint.into());
    assert!(if n == 3 { rest.is_some() && rest.unwrap().len() == 1 && rest.unwrap()[0] == v[2] } else { rest.is_none() }, "C25.tag_take.pair_consumes_exactly_two");
  } else {
    assert!(got.is_none(), "C25.tag_take.single_value_is_not_a_pair");
    assert!(fields.get(&Tag::Mint.into()).unwrap().len() == 1, "C25.tag_take.incomplete_pair_not_consumed");
  }
  std::mem::forget(fields);
}
