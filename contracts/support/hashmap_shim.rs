// SHIMS for std::collections::{HashMap, VecDeque}: small fixed-capacity containers with the methods
// the code under contract calls.  ASSUMED contract of the real types: a finite map (get / insert /
// remove act on one key only; iteration order unspecified - harness postconditions do not depend on
// it) and a queue (push_back appends, get(i) is the i-th element from the front, drain(0..n)
// removes the first n).  Fixed arrays instead of Vec: heap-backed shims made CBMC run out of memory
// (> 30 GB) on the callers.  Exceeding the capacity fails an assertion, so a harness can never pass
// by silently dropping an entry.
#![allow(dead_code)]

pub const CAPACITY: usize = 4;

pub struct HashMap<K, V> {
  len: usize,
  keys: [std::mem::MaybeUninit<K>; CAPACITY],
  vals: [std::mem::MaybeUninit<V>; CAPACITY],
}

pub struct Entry<'a, K, V> {
  map: &'a mut HashMap<K, V>,
  key: K,
}

impl<K, V> Default for HashMap<K, V> {
  fn default() -> Self {
    Self {
      len: 0,
      keys: [const { std::mem::MaybeUninit::uninit() }; CAPACITY],
      vals: [const { std::mem::MaybeUninit::uninit() }; CAPACITY],
    }
  }
}

impl<K: Clone + PartialEq, V: Clone> Clone for HashMap<K, V> {
  fn clone(&self) -> Self {
    let mut m = Self::default();
    let mut i = 0;
    while i < self.len {
      m.push(self.key_at(i).clone(), self.val_at(i).clone());
      i += 1;
    }
    m
  }
}

impl<K, V> std::fmt::Debug for HashMap<K, V> {
  fn fmt(&self, f: &mut std::fmt::Formatter) -> std::fmt::Result {
    write!(f, "HashMap(len {})", self.len)
  }
}

impl<K, V> HashMap<K, V> {
  fn key_at(&self, i: usize) -> &K {
    unsafe { self.keys[i].assume_init_ref() }
  }
  fn val_at(&self, i: usize) -> &V {
    unsafe { self.vals[i].assume_init_ref() }
  }
  fn push(&mut self, k: K, v: V) -> usize {
    assert!(self.len < CAPACITY, "shim HashMap capacity");
    self.keys[self.len] = std::mem::MaybeUninit::new(k);
    self.vals[self.len] = std::mem::MaybeUninit::new(v);
    self.len += 1;
    self.len - 1
  }
  pub fn is_empty(&self) -> bool {
    self.len == 0
  }
  pub fn len(&self) -> usize {
    self.len
  }
  pub fn iter(&self) -> Iter<'_, K, V> {
    Iter { map: self, next: 0 }
  }
  pub fn keys(&self) -> Keys<'_, K, V> {
    Keys { map: self, next: 0 }
  }
}

impl<K: PartialEq, V> HashMap<K, V> {
  pub fn new() -> Self {
    Self::default()
  }
  fn position(&self, k: &K) -> Option<usize> {
    let mut i = 0;
    while i < self.len {
      if self.key_at(i) == k {
        return Some(i);
      }
      i += 1;
    }
    None
  }
  pub fn entry(&mut self, key: K) -> Entry<'_, K, V> {
    Entry { map: self, key }
  }
  pub fn insert(&mut self, k: K, v: V) -> Option<V> {
    match self.position(&k) {
      Some(i) => Some(unsafe { std::mem::replace(&mut self.vals[i], std::mem::MaybeUninit::new(v)).assume_init() }),
      None => {
        self.push(k, v);
        None
      }
    }
  }
  pub fn get(&self, k: &K) -> Option<&V> {
    match self.position(k) {
      Some(i) => Some(self.val_at(i)),
      None => None,
    }
  }
  pub fn get_mut(&mut self, k: &K) -> Option<&mut V> {
    match self.position(k) {
      Some(i) => Some(unsafe { self.vals[i].assume_init_mut() }),
      None => None,
    }
  }
  pub fn remove(&mut self, k: &K) -> Option<V> {
    match self.position(k) {
      Some(i) => {
        let last = self.len - 1;
        self.keys.swap(i, last);
        self.vals.swap(i, last);
        self.len = last;
        Some(unsafe { std::mem::replace(&mut self.vals[last], std::mem::MaybeUninit::uninit()).assume_init() })
      }
      None => None,
    }
  }
}

impl<K: PartialEq, V: PartialEq> PartialEq for HashMap<K, V> {
  fn eq(&self, other: &Self) -> bool {
    if self.len != other.len {
      return false;
    }
    let mut i = 0;
    while i < self.len {
      if other.get(self.key_at(i)) != Some(self.val_at(i)) {
        return false;
      }
      i += 1;
    }
    true
  }
}

impl<'a, K: PartialEq, V: Default> Entry<'a, K, V> {
  pub fn or_default(self) -> &'a mut V {
    let i = match self.map.position(&self.key) {
      Some(i) => i,
      None => self.map.push(self.key, V::default()),
    };
    unsafe { self.map.vals[i].assume_init_mut() }
  }
}

pub struct IntoIter<K, V> {
  map: HashMap<K, V>,
  next: usize,
}

impl<K, V> Iterator for IntoIter<K, V> {
  type Item = (K, V);
  fn next(&mut self) -> Option<(K, V)> {
    if self.next < self.map.len {
      let i = self.next;
      self.next += 1;
      let k = unsafe { std::mem::replace(&mut self.map.keys[i], std::mem::MaybeUninit::uninit()).assume_init() };
      let v = unsafe { std::mem::replace(&mut self.map.vals[i], std::mem::MaybeUninit::uninit()).assume_init() };
      Some((k, v))
    } else {
      None
    }
  }
}

impl<K, V> IntoIterator for HashMap<K, V> {
  type Item = (K, V);
  type IntoIter = IntoIter<K, V>;
  fn into_iter(self) -> IntoIter<K, V> {
    IntoIter { map: self, next: 0 }
  }
}

pub struct Iter<'a, K, V> {
  map: &'a HashMap<K, V>,
  next: usize,
}

impl<'a, K, V> Iterator for Iter<'a, K, V> {
  type Item = (&'a K, &'a V);
  fn next(&mut self) -> Option<(&'a K, &'a V)> {
    if self.next < self.map.len {
      let i = self.next;
      self.next += 1;
      Some((self.map.key_at(i), self.map.val_at(i)))
    } else {
      None
    }
  }
}

pub struct Keys<'a, K, V> {
  map: &'a HashMap<K, V>,
  next: usize,
}

impl<'a, K, V> Iterator for Keys<'a, K, V> {
  type Item = &'a K;
  fn next(&mut self) -> Option<&'a K> {
    if self.next < self.map.len {
      let i = self.next;
      self.next += 1;
      Some(self.map.key_at(i))
    } else {
      None
    }
  }
}

impl<'a, K, V> IntoIterator for &'a HashMap<K, V> {
  type Item = (&'a K, &'a V);
  type IntoIter = Iter<'a, K, V>;
  fn into_iter(self) -> Iter<'a, K, V> {
    Iter { map: self, next: 0 }
  }
}

impl<K: PartialEq, V> FromIterator<(K, V)> for HashMap<K, V> {
  fn from_iter<I: IntoIterator<Item = (K, V)>>(iter: I) -> Self {
    let mut m = Self::new();
    for (k, v) in iter {
      m.insert(k, v);
    }
    m
  }
}

/// Storage is `[MaybeUninit<T>; CAPACITY]` + a length, not `[Option<T>; CAPACITY]`: with T = u128 the
/// Option's tag is 128 bits wide and Kani 0.68 mis-handles it (a harness reading such a slot failed
/// with "unreachable code" inside Option::<u128>::as_ref although the slot had been written).
pub struct VecDeque<T> {
  len: usize,
  items: [std::mem::MaybeUninit<T>; CAPACITY],
}

impl<T> Default for VecDeque<T> {
  fn default() -> Self {
    Self { len: 0, items: [const { std::mem::MaybeUninit::uninit() }; CAPACITY] }
  }
}

impl<T: Clone> Clone for VecDeque<T> {
  fn clone(&self) -> Self {
    let mut q = Self::default();
    let mut i = 0;
    while i < self.len {
      q.push_back(self[i].clone());
      i += 1;
    }
    q
  }
}

impl<T: std::fmt::Debug> std::fmt::Debug for VecDeque<T> {
  fn fmt(&self, f: &mut std::fmt::Formatter) -> std::fmt::Result {
    write!(f, "VecDeque(len {})", self.len)
  }
}

/// what `drain` returns: the removal has already happened (the callers drop the result at once)
pub struct Drained;

impl<T> VecDeque<T> {
  pub fn new() -> Self {
    Self::default()
  }
  pub fn push_back(&mut self, v: T) {
    assert!(self.len < CAPACITY, "shim VecDeque capacity");
    self.items[self.len] = std::mem::MaybeUninit::new(v);
    self.len += 1;
  }
  pub fn get(&self, i: usize) -> Option<&T> {
    if i < self.len { Some(unsafe { self.items[i].assume_init_ref() }) } else { None }
  }
  pub fn len(&self) -> usize {
    self.len
  }
  pub fn is_empty(&self) -> bool {
    self.len == 0
  }
  /// removes the first r.end elements (elements are not dropped: only plain integers are stored)
  pub fn drain(&mut self, r: std::ops::Range<usize>) -> Drained {
    assert!(r.start == 0 && r.end <= self.len, "shim VecDeque::drain: only prefixes");
    let n = r.end;
    let mut i = 0;
    while i + n < self.len {
      self.items[i] = std::mem::replace(&mut self.items[i + n], std::mem::MaybeUninit::uninit());
      i += 1;
    }
    self.len -= n;
    Drained
  }
}

impl<T: PartialEq> PartialEq for VecDeque<T> {
  fn eq(&self, other: &Self) -> bool {
    if self.len != other.len {
      return false;
    }
    let mut i = 0;
    while i < self.len {
      if self[i] != other[i] {
        return false;
      }
      i += 1;
    }
    true
  }
}

impl<T> std::ops::Index<usize> for VecDeque<T> {
  type Output = T;
  fn index(&self, i: usize) -> &T {
    assert!(i < self.len, "shim VecDeque index");
    unsafe { self.items[i].assume_init_ref() }
  }
}

impl<T> FromIterator<T> for VecDeque<T> {
  fn from_iter<I: IntoIterator<Item = T>>(iter: I) -> Self {
    let mut q = Self::new();
    for x in iter {
      q.push_back(x);
    }
    q
  }
}

impl<T, const N: usize> From<[T; N]> for VecDeque<T> {
  fn from(a: [T; N]) -> Self {
    a.into_iter().collect()
  }
}
