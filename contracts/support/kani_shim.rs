// Native stand-in for the few `kani::` items the harnesses use, for replaying a counterexample
// against the real code with the ordinary compiler (debug profile, overflow checks on).
// `any::<T>()` pops the next recorded value (the byte vectors printed by
// `cargo kani --concrete-playback=print`, in call order).  `assume(false)` ends the run as
// "input outside precondition" (exit code 3).
#![allow(dead_code)]
use std::cell::RefCell;
use std::collections::VecDeque;

thread_local! {
  static VALUES: RefCell<VecDeque<Vec<u8>>> = RefCell::new(VecDeque::new());
}

pub fn load(values: Vec<Vec<u8>>) {
  VALUES.with(|v| *v.borrow_mut() = values.into());
}

pub fn remaining() -> usize {
  VALUES.with(|v| v.borrow().len())
}

fn next(n: usize) -> Vec<u8> {
  VALUES.with(|v| match v.borrow_mut().pop_front() {
    Some(b) => {
      if b.len() != n {
        eprintln!("REPLAY-MISMATCH: expected {} bytes, recorded value has {}", n, b.len());
        std::process::exit(4);
      }
      b
    }
    None => {
      eprintln!("REPLAY-MISMATCH: recorded values exhausted");
      std::process::exit(4);
    }
  })
}

pub trait Arbitrary: Sized {
  fn any() -> Self;
  fn any_array<const N: usize>() -> [Self; N] {
    std::array::from_fn(|_| Self::any())
  }
}

macro_rules! int_any {
  ($($t:ty),*) => {$(
    impl Arbitrary for $t {
      fn any() -> Self {
        let b = next(std::mem::size_of::<$t>());
        <$t>::from_le_bytes(b.try_into().unwrap())
      }
    }
  )*};
}
int_any!(u8, u16, u32, u64, u128, usize, i8, i16, i32, i64, i128, isize);

impl Arbitrary for f64 {
  fn any() -> Self {
    f64::from_le_bytes(next(8).try_into().unwrap())
  }
}

impl Arbitrary for f32 {
  fn any() -> Self {
    f32::from_le_bytes(next(4).try_into().unwrap())
  }
}

impl Arbitrary for bool {
  fn any() -> Self {
    next(1)[0] & 1 == 1
  }
}

impl Arbitrary for char {
  fn any() -> Self {
    let v = u32::from_le_bytes(next(4).try_into().unwrap());
    match char::from_u32(v) {
      Some(c) => c,
      None => {
        eprintln!("REPLAY: input outside precondition (invalid char)");
        std::process::exit(3);
      }
    }
  }
}

impl<T: Arbitrary, const N: usize> Arbitrary for [T; N] {
  fn any() -> Self {
    T::any_array::<N>()
  }
}

impl<T: Arbitrary> Arbitrary for Option<T> {
  fn any() -> Self {
    if bool::any() { Some(T::any()) } else { None }
  }
}

impl<A: Arbitrary, B: Arbitrary> Arbitrary for (A, B) {
  fn any() -> Self {
    (A::any(), B::any())
  }
}

pub fn any<T: Arbitrary>() -> T {
  T::any()
}

pub fn assume(cond: bool) {
  if !cond {
    eprintln!("REPLAY: input outside precondition (assume failed)");
    std::process::exit(3);
  }
}

macro_rules! cover {
  ($($t:tt)*) => {};
}
pub(crate) use cover;
