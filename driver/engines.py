"""Verification engines: how a set of harnesses is built from /repo's working tree and run."""
import glob, hashlib, json, os, re, shutil, subprocess, sys, time

VERIF = os.path.dirname(os.path.dirname(os.path.abspath(__file__)))
REPO = os.environ.get("VERIF_REPO", "/repo")
sys.path.insert(0, os.path.join(VERIF, "tools"))
ENV = dict(os.environ, CARGO_NET_OFFLINE="true")
ENV.pop("RUSTFLAGS", None)


def load_factor():
    """Timeouts are wall-clock; on a machine that is busy with other work (load above the core count) every
    verifier run is proportionally slower.  Scale the timeouts by load / cores, between 1 and 5, so that a busy
    machine yields a slower answer instead of an 'undecided'."""
    try:
        return max(1.0, min(5.0, os.getloadavg()[0] / (os.cpu_count() or 16)))
    except OSError:
        return 1.0


def sh(cmd, cwd=None, timeout=None, env=None):
    t0 = time.time()
    try:
        p = subprocess.run(cmd, cwd=cwd, env=env or ENV, stdout=subprocess.PIPE, stderr=subprocess.STDOUT,
                           timeout=timeout, text=True, errors="replace")
        return p.returncode, p.stdout, time.time() - t0
    except subprocess.TimeoutExpired as e:
        out = e.stdout or ""
        if isinstance(out, bytes):
            out = out.decode(errors="replace")
        subprocess.run(["pkill", "-f", "[c]bmc --"], check=False)
        return -9, out + "\n[driver] TIMEOUT", time.time() - t0


class KaniEngine:
    def __init__(self, name, contracts_glob, prepare, modpath_of, runner_dir, replay_cfg):
        self.name = name
        self.contracts_glob = contracts_glob
        self.prepare = prepare          # () -> dict(crate_dir=..., sources=..., trusted=[...], assumptions=[...])
        self.modpath_of = modpath_of    # contract file -> rust module path of the harness module
        self.runner_dir = runner_dir
        self.replay_cfg = replay_cfg
        self.target = os.path.join(VERIF, ".cache", f"kani-{name}")
        self._prepared = None

    def _prep(self):
        if self._prepared is None:
            self._prepared = self.prepare()
        return self._prepared

    def base_cmd(self):
        return ["cargo", "kani", "--target-dir", self.target, "-Z", "stubbing", "-Z", "unstable-options"]

    def run(self, harnesses, tier, log):
        """harnesses marked `//# jobs: N` (memory-hungry: ~13 GB of CBMC each) run in their own
        `cargo kani -j N` invocation; everything else runs with -j 16"""
        groups = {}
        for h in harnesses:
            groups.setdefault((int(h.get("jobs", 16)), h.get("cbmc", "")), []).append(h)
        merged = None
        for jobs, cbmc in sorted(groups, reverse=True):
            res = self._run_group(groups[(jobs, cbmc)], tier, log, jobs, cbmc)
            if res.get("fatal"):
                return res
            if merged is None:
                merged = res
            else:
                merged["harnesses"].update(res["harnesses"])
                merged["unit"]["cmd"] += " ; " + res["unit"]["cmd"]
                merged["unit"]["wall_s"] = merged["unit"].get("wall_s", 0) + res["unit"].get("wall_s", 0)
        return merged

    def _run_group(self, harnesses, tier, log, jobs, cbmc=""):
        try:
            info = self._prep()
        except Exception as e:  # noqa: BLE001  (lost anchor, missing file ...)
            return {"fatal": f"prepare failed: {e!r}", "unit": {"cmd": "", "sources": {}}, "harnesses": {}}
        crate = info["crate_dir"]
        names = [h["name"] for h in harnesses]
        tmo = int(max(h["timeout"] for h in harnesses) * (1 if tier == "quick" else 4) * load_factor())
        jpath = os.path.join(VERIF, ".work", f"{self.name}-result-{os.getpid()}.json")
        if os.path.exists(jpath):
            os.remove(jpath)
        cmd = self.base_cmd() + ["-j", str(jobs), "--output-format=terse", "--harness-timeout", f"{tmo}s",
                                 "--export-json", jpath]
        for n in names:
            cmd += ["--harness", n]
        if cbmc:
            # extra CBMC arguments for this group (`//# cbmc:`), e.g. a per-loop unwinding bound for the memcmp builtin
            cmd += ["--cbmc-args"] + cbmc.split()
        unit = {"cmd": " ".join(cmd) + f"   (cwd {crate})", "sources": info.get("sources", {}),
                "trusted": info.get("trusted", []), "assumptions": info.get("assumptions", [])}
        log(f"[{self.name}] kani: {len(names)} harnesses, -j {jobs}, per-harness timeout {tmo}s")
        rounds = (len(names) + jobs - 1) // jobs
        rc, out, wall = sh(cmd, cwd=crate, timeout=tmo * (rounds + 2) + 900)
        open(os.path.join(VERIF, ".work", f"{self.name}-last.log"), "w").write(out)
        unit["wall_s"] = round(wall, 1)
        if not os.path.exists(jpath):
            tail = "\n".join(out.splitlines()[-25:])
            kind = "timeout" if rc == -9 else "build or tool failure"
            return {"fatal": f"{kind} (rc={rc}); kani output tail:\n{tail}", "unit": unit, "harnesses": {}}
        data = json.load(open(jpath))
        os.remove(jpath)
        stubs_applied = sorted(set(re.findall(r"- Stub: (.*)", out)))
        solver = {c["harness_id"]: c for c in data.get("cbmc", [])}
        res = {}
        for r in data["verification_results"]["results"]:
            hid = r["harness_id"]
            short = hid.split("::")[-1]
            checks = r.get("checks", [])
            failed = [c for c in checks if c["status"] == "Failure"]
            other_bad = [c for c in checks if c["status"] not in ("Success", "Failure", "Unreachable", "Satisfied", "Unsatisfiable")]
            from main import classify_failure
            f_obs, u_obs = [], []
            for c in failed:
                k, ob = classify_failure(c)
                (f_obs if k == "violation" else u_obs).append(ob)
            # an unwinding failure makes every other verdict of the harness unreliable only in the
            # "pass" direction; failures stay failures.  Undetermined / solver errors => undecided.
            for c in other_bad:
                u_obs.append(f"{c['status']}: {c.get('description', '')[:80]}")
            covers = [c for c in checks if c.get("category") == "cover"]
            named = sorted({c["description"].strip('"') for c in checks
                            if c.get("category") == "assertion" and re.match(r'"?C\d+\.', c.get("description", ""))})
            st = (solver.get(hid) or {}).get("cbmc_stats") or {}
            status = "passed"
            reason = ""
            if r["status"] != "Success":
                if f_obs:
                    status = "failed"
                else:
                    status = "undecided"
                    reason = "; ".join(u_obs) or f"kani status {r['status']} with no failed check (timeout / out of memory / tool error)"
            nonunreach = [c for c in checks if c["status"] != "Unreachable"]
            res[short] = {
                "id": hid, "status": status, "reason": reason,
                "failed_obligations": sorted(set(f_obs)),
                "undecided_obligations": sorted(set(u_obs)) if status != "undecided" else [],
                "failed_checks": failed,
                "unsat_covers": [c["description"] for c in covers if c["status"] != "Satisfied"],
                "covers_sat": sum(1 for c in covers if c["status"] == "Satisfied"),
                "obligations": len(checks),
                "discharged": sum(1 for c in checks if c["status"] in ("Success", "Unreachable", "Satisfied")),
                "named": named,
                "back_end": "CBMC %s / %s" % (data["tools"].get("cbmc", "?"), ((solver.get(hid) or {}).get("configuration") or {}).get("solver", "?")),
                "solver_s": float(st.get("runtime_decision_procedure_s", 0.0) or 0.0),
                "wall_s": r.get("duration_ms", 0) / 1000.0,
                "stubs_applied": stubs_applied,
            }
            if status == "passed" and not checks:
                res[short]["status"] = "undecided"
                res[short]["reason"] = "zero obligations generated"
        return {"unit": unit, "harnesses": res}

    # ---- counterexample extraction (single harness, concrete playback)
    def counterexample(self, h, log, want_desc=None):
        info = self._prep()
        cache = self.__dict__.setdefault("_playback", {})
        if h["name"] in cache:
            return self._pick(cache[h["name"]], want_desc, h["name"])
        cmd = self.base_cmd() + ["-Z", "concrete-playback", "--concrete-playback=print", "--harness", h["name"], "--exact"]
        # --exact needs the full path
        cmd[-2] = self.modpath_of(h["file"]) + "::" + h["name"]
        log(f"[{self.name}] extracting counterexample for {h['name']}")
        cmd += ["--harness-timeout", f"{min(h['timeout'], 300)}s"]
        rc, out, _ = sh(cmd, cwd=info["crate_dir"], timeout=min(h["timeout"], 300) + 240)
        cache[h["name"]] = out
        return self._pick(out, want_desc, h["name"])

    def prefetch_counterexamples(self, hs, log):
        """One `cargo kani --concrete-playback=print` run for all failed harnesses (in parallel)
        instead of one run per harness; fills the per-harness cache used by counterexample()."""
        cache = self.__dict__.setdefault("_playback", {})
        todo = [h for h in hs if h["name"] not in cache]
        if len(todo) < 2:
            return
        info = self._prep()
        tmo = min(max(h["timeout"] for h in todo), 600)
        cmd = self.base_cmd() + ["-Z", "concrete-playback", "--concrete-playback=print", "-j", "8", "--harness-timeout", f"{tmo}s"]
        for h in todo:
            cmd += ["--harness", h["name"]]
        log(f"[{self.name}] extracting counterexamples for {len(todo)} harnesses in one run")
        rc, out, _ = sh(cmd, cwd=info["crate_dir"], timeout=tmo * 2 + 600)
        for h in todo:
            cache[h["name"]] = out

    @staticmethod
    def _pick(out, want_desc, harness=None):
        tests = []
        for tm in re.finditer(r"/// Test generated for harness([^\n]*)\n///\s*\n/// Check for `([a-z_]+)`: (.*?)\n(.*?)\n}", out, re.S):
            hline, cat, desc, body = tm.group(1), tm.group(2), tm.group(3).strip(), tm.group(4)
            if harness and harness not in hline and ("`" in hline):
                continue
            vals = []
            for vm in re.finditer(r"^\s*vec!\[([0-9,\s]*)\],?\s*$", body, re.M):
                vals.append([int(x) for x in vm.group(1).split(",") if x.strip()])
            tests.append({"category": cat, "description": desc.strip('"'), "values": vals, "source": tm.group(0)})
        want = (want_desc or "").strip('"')
        pick = [t for t in tests if t["category"] != "cover" and t["description"] == want] or \
               [t for t in tests if t["category"] != "cover" and want and want in t["description"]] or \
               [t for t in tests if t["category"] != "cover"]
        if not pick:
            return {"values": None, "raw": out}
        return {"values": pick[0]["values"], "source": pick[0]["source"], "raw": out}

    # ---- native replay against the real code
    def registry(self, harnesses):
        lines = ["// generated by driver/engines.py: harness registry for native replay",
                 "pub fn run(name: &str) -> bool {", "  match name {"]
        for h in harnesses:
            mp = self.modpath_of(h["file"])
            parts = mp.split("::")
            if len(parts) > 2 and self.name in ("e1", "e1s"):  # private nested module: reached through the parent's re-export (tools/overlay.py)
                mp = "::".join(parts[:-2]) + "::verif_contracts_" + parts[-2]
            lines.append(f'    "{h["name"]}" => crate::{mp}::{h["name"]}(),')
        lines += ["    _ => return false,", "  }", "  true", "}", ""]
        return "\n".join(lines)

    def native_replay(self, h, values, log):
        from main import discover
        info = self._prep()
        hs = [x for x in discover() if x["engine"] == self.name]
        self.write_registry(info, hs)
        env = dict(ENV)
        env["RUSTFLAGS"] = self.replay_cfg
        tgt = os.path.join(VERIF, ".cache", f"replay-{self.name}")
        shutil.copy(os.path.join(REPO, "Cargo.lock"), os.path.join(self.runner_dir, "Cargo.lock"))
        rc, out, _ = sh(["cargo", "build", "--offline", "--target-dir", tgt], cwd=self.runner_dir, env=env, timeout=1800)
        if rc != 0:
            return {"reproduced": False, "error": "native runner build failed", "output": out[-3000:]}
        exe = os.path.join(tgt, "debug", "replay_runner")
        p = subprocess.run([exe, h["name"]], input=json.dumps(values), stdout=subprocess.PIPE, stderr=subprocess.STDOUT,
                           text=True, timeout=600, errors="replace")
        out = p.stdout[-4000:]
        return {"reproduced": p.returncode == 1, "exit_code": p.returncode, "output": out,
                "profile": "debug (overflow checks on), real sources of /repo's working tree",
                "meaning": {0: "harness body completed: obligation NOT reproduced natively", 1: "assertion/panic reproduced on the real code",
                            3: "input outside precondition", 4: "recorded values do not match the harness"}.get(p.returncode, "?")}

    def write_registry(self, info, hs):
        open(os.path.join(info["crate_dir"], "registry.rs"), "w").write(self.registry(hs))


# --------------------------------------------------------------------------- E1

def prepare_e1():
    import overlay
    dest = os.path.join(VERIF, ".work", "e1")
    info = overlay.build(dest)
    reg = os.path.join(dest, "registry.rs")
    if not os.path.exists(reg):
        open(reg, "w").write("pub fn run(_: &str) -> bool { false }\n")
    return {
        "crate_dir": dest,
        "sources": {"engine": "E1: real crates/ordinals/src copied byte-for-byte; one `mod verif_contracts;` line appended to: "
                    + ", ".join(info["appended_mod_line_to"]), "sha256": info["real_files"]},
        "trusted": ["rustc MIR as compiled by Kani's toolchain (nightly-2026-08-21), not the release compiler",
                    "bitcoin / serde / derive_more dependencies executed as code where reached"],
        "assumptions": [],
    }


def prepare_e1s():
    import overlay
    dest = os.path.join(VERIF, ".work", "e1s")
    info = overlay.build(dest, variant="e1s")
    reg = os.path.join(dest, "registry.rs")
    if not os.path.exists(reg):
        open(reg, "w").write("pub fn run(_: &str) -> bool { false }\n")
    return {
        "crate_dir": dest,
        "sources": {"engine": "E1S: real crates/ordinals/src copied byte-for-byte, ONE import line of lib.rs redirected (std::collections::HashMap -> association-list shim); `mod verif_contracts;` appended to: "
                    + ", ".join(info["appended_mod_line_to"]), "sha256": info["real_files"]},
        "trusted": ["rustc MIR as compiled by Kani's toolchain (nightly-2026-08-21), not the release compiler",
                    "E1S: std::collections::HashMap replaced by contracts/support/hashmap_shim.rs (assumed contract: finite map)"],
        "assumptions": [],
    }


def modpath_e1s(contract_file):
    import overlay
    base = os.path.basename(contract_file)
    for rel, c in overlay.MODS_S.items():
        if c == base:
            if rel == "lib.rs":
                return "verif_contracts"
            return rel[:-3].replace("/", "::") + "::verif_contracts"
    raise KeyError(contract_file)


def modpath_e1(contract_file):
    import overlay
    base = os.path.basename(contract_file)
    for rel, c in overlay.MODS.items():
        if c == base:
            if rel == "lib.rs":
                return "verif_contracts"
            return rel[:-3].replace("/", "::") + "::verif_contracts"
    raise KeyError(contract_file)


# --------------------------------------------------------------------------- E2

def prepare_e2():
    import overlay_ord
    dest = os.path.join(VERIF, ".work", "e2")
    info = overlay_ord.build(dest)
    reg = os.path.join(dest, "registry.rs")
    if not os.path.exists(reg):
        open(reg, "w").write("pub fn run(_: &str) -> bool { false }\n")
    return {
        "crate_dir": dest,
        "sources": {"engine": "E2: real files of /repo/src copied byte-for-byte under a substitute crate root (contracts/ord/shim); "
                    "one `mod verif_contracts;` line appended to: " + ", ".join(info["appended_mod_line_to"]),
                    "sha256": info["real_files"], "extracted_items": info["extracted_items"]},
        "trusted": ["rustc MIR as compiled by Kani's toolchain (nightly-2026-08-21), not the release compiler",
                    "bitcoin / serde / anyhow / redb / ref-cast dependencies executed as code where reached",
                    "E2 substitute prelude: the real files are compiled under contracts/ord/shim/{lib,index,inscriptions}.rs instead of "
                    "ord's own src/lib.rs, src/index.rs, src/inscriptions.rs; identical name resolution is assumed (same crates, same Cargo.lock)",
                    "E2 shim `struct Index` = the option flags only (index_sats, index_addresses, index_inscriptions, index_runes, index_transactions)"],
        "assumptions": [],
    }


def modpath_e2(contract_file):
    import overlay_ord
    base = os.path.basename(contract_file)
    for rel, c in overlay_ord.CONTRACTS.items():
        if c == base:
            return rel[:-3].replace("/", "::") + "::verif_contracts"
    for rel, c in overlay_ord.SHIM_CONTRACTS.items():
        if c == base:
            return rel[:-3].replace("/", "::") + "::verif_contracts"
    raise KeyError(contract_file)


# --------------------------------------------------------------------------- Verus

VERUS_VERIF_ERRORS = (
    "postcondition not satisfied", "precondition not satisfied", "assertion failed", "possible arithmetic underflow/overflow",
    "possible division by zero", "possible bit shift underflow/overflow", "invariant not satisfied",
    "decreases not satisfied", "loop invariant", "possible truncation", "unreachable", "assertion failure",
)


class VerusEngine:
    """Single-file Verus units assembled on every run from templates + the real text of /repo."""
    name = "ev"
    contracts_glob = "contracts/verus/*.rs.tmpl"
    describe = "Verus 0.2026.09.13 (Z3) on single-file units assembled mechanically from the real function text (tools/vassemble.py)"

    def run(self, harnesses, tier, log):
        import vassemble, extract
        res, srcs, cmds = {}, {}, []
        trusted = ["Verus 0.2026.09.13 / Z3 (SMT, mathematical integers with explicit machine-range obligations)",
                   "vstd specifications of std items used by the extracted code (u32::try_from, Option/Result::unwrap, slice get/last, is_multiple_of, shifts)",
                   "the single-file unit replaces the crate context: constants re-declared in the template are checked against /repo by the Kani harness c29_epoch_table"]
        os.makedirs(os.path.join(VERIF, ".work", "verus"), exist_ok=True)
        for h in harnesses:
            t0 = time.time()
            unit = h["name"]
            out_rs = os.path.join(VERIF, ".work", "verus", unit + ".rs")
            try:
                text, linemap, manifest = vassemble.assemble(h["file"])
            except extract.AnchorLost as e:
                res[unit] = {"status": "undecided", "reason": f"extraction anchor lost: {e}", "failed_obligations": []}
                continue
            open(out_rs, "w").write(text)
            srcs[unit] = manifest
            cmd = ["verus", out_rs, "--output-json", "--time", "--multiple-errors", "20", "--rlimit", "60" if tier == "quick" else "240"]
            cmds.append(" ".join(cmd))
            tmo = int(h["timeout"] * (1 if tier == "quick" else 4) * load_factor())
            p = subprocess.run(cmd, stdout=subprocess.PIPE, stderr=subprocess.PIPE, text=True, env=ENV,
                               timeout=None if tmo is None else tmo + 60, errors="replace")
            try:
                js = json.loads(p.stdout[p.stdout.index("{"):])
            except Exception:  # noqa: BLE001
                js = {}
            vr = js.get("verification-results", {})
            err = p.stderr
            blocks = re.split(r"\n(?=error)", "\n" + err)
            f_obs, u_obs, fchecks = [], [], []
            lines = text.split("\n")
            for b in blocks:
                m = re.match(r"error(\[E\d+\])?: (.*)", b.strip())
                if not m or m.group(2).startswith("aborting due to"):
                    continue
                msg = m.group(2).strip()
                loc = re.search(r"--> [^:\n]+:(\d+):(\d+)", b)
                ln = int(loc.group(1)) if loc else 0
                fn = "?"
                for k in range(ln - 1, 0, -1):
                    fm = re.search(r"\bfn\s+([A-Za-z0-9_]+)", lines[k - 1]) if k - 1 < len(lines) else None
                    if fm:
                        fn = fm.group(1)
                        break
                origin = linemap.get(ln, ("?",))
                clause = lines[ln - 1].strip() if 0 < ln <= len(lines) else ""
                is_verif = any(msg.startswith(x) or x in msg for x in VERUS_VERIF_ERRORS) and not m.group(1)
                if "rlimit" in msg.lower() or "resource limit" in msg.lower():
                    u_obs.append(f"{unit}.{fn}: solver resource limit ({msg})")
                elif is_verif:
                    ob = f"VERUS.{unit}.{fn}: {msg} [{clause[:120]}]"
                    f_obs.append(ob)
                    fchecks.append({"description": ob, "verus_error": b.strip()[:1500], "origin": list(origin)})
                else:
                    u_obs.append(f"{unit}.{fn}: verus could not process the unit ({msg[:160]}) at assembled line {ln}")
            verified = vr.get("verified", 0)
            errors = vr.get("errors", 0)
            smt = js.get("times-ms", {}).get("smt", {})
            if f_obs:
                status, reason = "failed", ""
            elif u_obs or not vr.get("success", False):
                status = "undecided"
                reason = "; ".join(u_obs) or ("verus did not report success: " + err[-400:])
            else:
                status, reason = "passed", ""
            if status == "passed" and verified == 0:
                status, reason = "undecided", "zero functions verified (vacuity guard)"
            fnames = []
            for fb in js.get("times-ms", {}).get("smt", {}).get("smt-run-module-times", []):
                for f in fb.get("function-breakdown", []):
                    fnames.append(f.get("function", "?").split("::")[-1])
            res[unit] = {
                "id": unit, "status": status, "reason": reason,
                "failed_obligations": sorted(set(f_obs)), "undecided_obligations": [] if status == "undecided" else u_obs,
                "failed_checks": fchecks, "unsat_covers": [], "covers_sat": 0,
                "obligations": verified + errors, "discharged": verified,
                "named": sorted(set("verus fn " + x for x in fnames))[:80],
                "back_end": "Verus %s / Z3" % js.get("verus", {}).get("version", "?"),
                "solver_s": smt.get("total", 0) / 1000.0, "wall_s": time.time() - t0, "stubs_applied": [],
            }
        return {"unit": {"cmd": "; ".join(cmds), "sources": {"engine": "EV: items extracted by tools/extract.py from /repo on this run", "items": srcs},
                         "trusted": trusted, "assumptions": []},
                "harnesses": res}

    def counterexample(self, h, log, want_desc=None):
        """Verus gives no model; try the paired Kani harnesses (//# cex:) for a concrete input."""
        from main import discover
        names = [x.strip() for v in h.get("cex", []) for x in v.split(",") if x.strip()]
        allh = {x["name"]: x for x in discover()}
        cache = self.__dict__.setdefault("_cex_cache", {})
        for n in names:
            kh = allh.get(n)
            if not kh:
                continue
            if n not in cache:
                eng = ENGINES[kh["engine"]]
                kh = dict(kh, timeout=min(kh["timeout"], 120))
                cache[n] = (eng.counterexample(kh, log, None), kh)
            cex, kh = cache[n]
            if cex and cex.get("values"):
                cex = dict(cex, via=kh)
                return cex
        return {"values": None, "raw": "no paired Kani harness produced a counterexample"}

    def native_replay(self, h, values, log):
        via = h.get("_via")
        if not via:
            return {"reproduced": False, "error": "no concrete input"}
        return ENGINES[via["engine"]].native_replay(via, values, log)


DESCRIBE = {
    "e1s": "Kani 0.68/CBMC proof harnesses inside a byte-for-byte copy of the real `ordinals` crate with ONE import line of lib.rs redirected (std::collections::{HashMap, VecDeque} -> list-based shims, contracts/support/hashmap_shim.rs)",
    "e2": "Kani 0.68/CBMC proof harnesses on real files of the `ord` crate copied byte-for-byte (and items extracted verbatim) under a substitute crate root with environment shims (tools/overlay_ord.py, contracts/ord/shim)",
}

ENGINES = {
    "ev": VerusEngine(),
    "e1": KaniEngine("e1", "contracts/ordinals/*_contracts.rs", prepare_e1, modpath_e1,
                     os.path.join(VERIF, "replay", "e1_runner"), "--cfg ordinals_ord_verif"),
    "e1s": KaniEngine("e1s", "contracts/ordinals_s/*_contracts.rs", prepare_e1s, modpath_e1s,
                      os.path.join(VERIF, "replay", "e1s_runner"), "--cfg ordinals_ord_verif"),
    "e2": KaniEngine("e2", "contracts/ord/*_contracts.rs", prepare_e2, modpath_e2,
                     os.path.join(VERIF, "replay", "e2_runner"), "--cfg ordinals_ord_verif"),
}

for _n, _d in DESCRIBE.items():
    ENGINES[_n].describe = _d
