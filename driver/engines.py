"""Verification engines: how a set of harnesses is built from /repo's working tree and run."""
import glob, hashlib, json, os, re, shutil, subprocess, sys, time

VERIF = os.path.dirname(os.path.dirname(os.path.abspath(__file__)))
REPO = os.environ.get("VERIF_REPO", "/repo")
sys.path.insert(0, os.path.join(VERIF, "tools"))
ENV = dict(os.environ, CARGO_NET_OFFLINE="true")
ENV.pop("RUSTFLAGS", None)


def sh(cmd, cwd=None, timeout=None, env=None):
    t0 = time.time()
    try:
        p = subprocess.run(cmd, cwd=cwd, env=env or ENV, stdout=subprocess.PIPE, stderr=subprocess.STDOUT,
                           timeout=timeout, text=True, errors="replace")
        return p.returncode, p.stdout, time.time() - t0
    except subprocess.TimeoutExpired as e:
        out = e.stdout or ""
        if isinstance(out, bytes):
            out = out.decode(errors="replace")
        subprocess.run(["pkill", "-f", "[c]bmc --"], check=False)
        return -9, out + "\n[driver] TIMEOUT", time.time() - t0


class KaniEngine:
    def __init__(self, name, contracts_glob, prepare, modpath_of, runner_dir, replay_cfg):
        self.name = name
        self.contracts_glob = contracts_glob
        self.prepare = prepare          # () -> dict(crate_dir=..., sources=..., trusted=[...], assumptions=[...])
        self.modpath_of = modpath_of    # contract file -> rust module path of the harness module
        self.runner_dir = runner_dir
        self.replay_cfg = replay_cfg
        self.target = os.path.join(VERIF, ".cache", f"kani-{name}")
        self._prepared = None

    def _prep(self):
        if self._prepared is None:
            self._prepared = self.prepare()
        return self._prepared

    def base_cmd(self):
        return ["cargo", "kani", "--target-dir", self.target, "-Z", "stubbing", "-Z", "unstable-options"]

    def run(self, harnesses, tier, log):
        try:
            info = self._prep()
        except Exception as e:  # noqa: BLE001  (lost anchor, missing file ...)
            return {"fatal": f"prepare failed: {e!r}", "unit": {"cmd": "", "sources": {}}, "harnesses": {}}
        crate = info["crate_dir"]
        names = [h["name"] for h in harnesses]
        tmo = max(h["timeout"] for h in harnesses) * (1 if tier == "quick" else 4)
        jpath = os.path.join(VERIF, ".work", f"{self.name}-result-{os.getpid()}.json")
        if os.path.exists(jpath):
            os.remove(jpath)
        cmd = self.base_cmd() + ["-j", "16", "--output-format=terse", "--harness-timeout", f"{tmo}s",
                                 "--export-json", jpath]
        for n in names:
            cmd += ["--harness", n]
        unit = {"cmd": " ".join(cmd) + f"   (cwd {crate})", "sources": info.get("sources", {}),
                "trusted": info.get("trusted", []), "assumptions": info.get("assumptions", [])}
        log(f"[{self.name}] kani: {len(names)} harnesses, per-harness timeout {tmo}s")
        rc, out, wall = sh(cmd, cwd=crate, timeout=tmo * 3 + 900)
        open(os.path.join(VERIF, ".work", f"{self.name}-last.log"), "w").write(out)
        unit["wall_s"] = round(wall, 1)
        if not os.path.exists(jpath):
            tail = "\n".join(out.splitlines()[-25:])
            kind = "timeout" if rc == -9 else "build or tool failure"
            return {"fatal": f"{kind} (rc={rc}); kani output tail:\n{tail}", "unit": unit, "harnesses": {}}
        data = json.load(open(jpath))
        os.remove(jpath)
        stubs_applied = sorted(set(re.findall(r"- Stub: (.*)", out)))
        solver = {c["harness_id"]: c for c in data.get("cbmc", [])}
        res = {}
        for r in data["verification_results"]["results"]:
            hid = r["harness_id"]
            short = hid.split("::")[-1]
            checks = r.get("checks", [])
            failed = [c for c in checks if c["status"] == "Failure"]
            other_bad = [c for c in checks if c["status"] not in ("Success", "Failure", "Unreachable", "Satisfied", "Unsatisfiable")]
            from main import classify_failure
            f_obs, u_obs = [], []
            for c in failed:
                k, ob = classify_failure(c)
                (f_obs if k == "violation" else u_obs).append(ob)
            # an unwinding failure makes every other verdict of the harness unreliable only in the
            # "pass" direction; failures stay failures.  Undetermined / solver errors => undecided.
            for c in other_bad:
                u_obs.append(f"{c['status']}: {c.get('description', '')[:80]}")
            covers = [c for c in checks if c.get("category") == "cover"]
            named = sorted({c["description"].strip('"') for c in checks
                            if c.get("category") == "assertion" and re.match(r'"?C\d+\.', c.get("description", ""))})
            st = solver.get(hid, {}).get("cbmc_stats", {})
            status = "passed"
            reason = ""
            if r["status"] != "Success":
                if f_obs:
                    status = "failed"
                else:
                    status = "undecided"
                    reason = "; ".join(u_obs) or f"kani status {r['status']} with no failed check (timeout / out of memory / tool error)"
            nonunreach = [c for c in checks if c["status"] != "Unreachable"]
            res[short] = {
                "id": hid, "status": status, "reason": reason,
                "failed_obligations": sorted(set(f_obs)),
                "undecided_obligations": sorted(set(u_obs)) if status != "undecided" else [],
                "failed_checks": failed,
                "unsat_covers": [c["description"] for c in covers if c["status"] != "Satisfied"],
                "covers_sat": sum(1 for c in covers if c["status"] == "Satisfied"),
                "obligations": len(checks),
                "discharged": sum(1 for c in checks if c["status"] in ("Success", "Unreachable", "Satisfied")),
                "named": named,
                "back_end": "CBMC %s / %s" % (data["tools"].get("cbmc", "?"), solver.get(hid, {}).get("configuration", {}).get("solver", "?")),
                "solver_s": float(st.get("runtime_decision_procedure_s", 0.0) or 0.0),
                "wall_s": r.get("duration_ms", 0) / 1000.0,
                "stubs_applied": stubs_applied,
            }
            if status == "passed" and not checks:
                res[short]["status"] = "undecided"
                res[short]["reason"] = "zero obligations generated"
        return {"unit": unit, "harnesses": res}

    # ---- counterexample extraction (single harness, concrete playback)
    def counterexample(self, h, log, want_desc=None):
        info = self._prep()
        cmd = self.base_cmd() + ["-Z", "concrete-playback", "--concrete-playback=print", "--harness", h["name"], "--exact"]
        # --exact needs the full path
        cmd[-2] = self.modpath_of(h["file"]) + "::" + h["name"]
        log(f"[{self.name}] extracting counterexample for {h['name']}")
        rc, out, _ = sh(cmd, cwd=info["crate_dir"], timeout=h["timeout"] * 4 + 600)
        tests = []
        for tm in re.finditer(r"/// Test generated for harness.*?\n///\s*\n/// Check for `([a-z_]+)`: (.*?)\n(.*?)\n}", out, re.S):
            cat, desc, body = tm.group(1), tm.group(2).strip(), tm.group(3)
            vals = []
            for vm in re.finditer(r"^\s*vec!\[([0-9,\s]*)\],?\s*$", body, re.M):
                vals.append([int(x) for x in vm.group(1).split(",") if x.strip()])
            tests.append({"category": cat, "description": desc.strip('"'), "values": vals, "source": tm.group(0)})
        want = (want_desc or "").strip('"')
        pick = [t for t in tests if t["category"] != "cover" and t["description"] == want] or \
               [t for t in tests if t["category"] != "cover" and want and want in t["description"]] or \
               [t for t in tests if t["category"] != "cover"]
        if not pick:
            return {"values": None, "raw": out}
        return {"values": pick[0]["values"], "source": pick[0]["source"], "raw": out}

    # ---- native replay against the real code
    def registry(self, harnesses):
        lines = ["// generated by driver/engines.py: harness registry for native replay",
                 "pub fn run(name: &str) -> bool {", "  match name {"]
        for h in harnesses:
            mp = self.modpath_of(h["file"])
            lines.append(f'    "{h["name"]}" => crate::{mp}::{h["name"]}(),')
        lines += ["    _ => return false,", "  }", "  true", "}", ""]
        return "\n".join(lines)

    def native_replay(self, h, values, log):
        from main import discover
        info = self._prep()
        hs = [x for x in discover() if x["engine"] == self.name]
        self.write_registry(info, hs)
        env = dict(ENV)
        env["RUSTFLAGS"] = self.replay_cfg
        tgt = os.path.join(VERIF, ".cache", f"replay-{self.name}")
        shutil.copy(os.path.join(REPO, "Cargo.lock"), os.path.join(self.runner_dir, "Cargo.lock"))
        rc, out, _ = sh(["cargo", "build", "--offline", "--target-dir", tgt], cwd=self.runner_dir, env=env, timeout=1800)
        if rc != 0:
            return {"reproduced": False, "error": "native runner build failed", "output": out[-3000:]}
        exe = os.path.join(tgt, "debug", "replay_runner")
        p = subprocess.run([exe, h["name"]], input=json.dumps(values), stdout=subprocess.PIPE, stderr=subprocess.STDOUT,
                           text=True, timeout=600, errors="replace")
        out = p.stdout[-4000:]
        return {"reproduced": p.returncode == 1, "exit_code": p.returncode, "output": out,
                "profile": "debug (overflow checks on), real sources of /repo's working tree",
                "meaning": {0: "harness body completed: obligation NOT reproduced natively", 1: "assertion/panic reproduced on the real code",
                            3: "input outside precondition", 4: "recorded values do not match the harness"}.get(p.returncode, "?")}

    def write_registry(self, info, hs):
        open(os.path.join(info["crate_dir"], "registry.rs"), "w").write(self.registry(hs))


# --------------------------------------------------------------------------- E1

def prepare_e1():
    import overlay
    dest = os.path.join(VERIF, ".work", "e1")
    info = overlay.build(dest)
    reg = os.path.join(dest, "registry.rs")
    if not os.path.exists(reg):
        open(reg, "w").write("pub fn run(_: &str) -> bool { false }\n")
    return {
        "crate_dir": dest,
        "sources": {"engine": "E1: real crates/ordinals/src copied byte-for-byte; one `mod verif_contracts;` line appended to: "
                    + ", ".join(info["appended_mod_line_to"]), "sha256": info["real_files"]},
        "trusted": ["rustc MIR as compiled by Kani's toolchain (nightly-2026-08-21), not the release compiler",
                    "bitcoin / serde / derive_more dependencies executed as code where reached"],
        "assumptions": [],
    }


def modpath_e1(contract_file):
    import overlay
    base = os.path.basename(contract_file)
    for rel, c in overlay.MODS.items():
        if c == base:
            if rel == "lib.rs":
                return "verif_contracts"
            return rel[:-3].replace("/", "::") + "::verif_contracts"
    raise KeyError(contract_file)


ENGINES = {
    "e1": KaniEngine("e1", "contracts/ordinals/*_contracts.rs", prepare_e1, modpath_e1,
                     os.path.join(VERIF, "replay", "e1_runner"), "--cfg ordinals_ord_verif"),
}
