#!/usr/bin/env python3
"""Driver for the contract-based checks of ordinals/ord.

  ./check <ID> [--tier quick|thorough]     decide one property
  ./check replay <file>                    re-run a recorded counterexample natively
  ./check list                             list harnesses per property

Exit codes: 0 pass (known findings are printed, exit stays 0), 1 violation
(`VIOLATION property=<id> replay=<path>` once per failed named obligation),
2 undecided (build failure, timeout, lost anchor, unwinding bound hit,
unsupported construct, vacuity guard) -- never an alarm.
"""
import fcntl, glob, hashlib, json, os, re, shutil, subprocess, sys, time

VERIF = os.path.dirname(os.path.dirname(os.path.abspath(__file__)))
REPO = os.environ.get("VERIF_REPO", "/repo")
sys.path.insert(0, os.path.join(VERIF, "tools"))
sys.path.insert(0, os.path.join(VERIF, "driver"))

import engines  # noqa: E402

ENV = dict(os.environ, CARGO_NET_OFFLINE="true")


def log(*a):
    print(*a, file=sys.stderr, flush=True)


# --------------------------------------------------------------------------- harness discovery

META_RE = re.compile(r"^\s*//#\s*([a-z-]+)\s*:\s*(.*)$")
FN_RE = re.compile(r"^\s*pub fn ([a-z0-9_]+)\s*\(\s*\)|^[a-z_]+_harness!\(\s*([a-z0-9_]+)\s*,")


def discover():
    """Scan contract files for harnesses and their `//# key: value` metadata."""
    out = []
    for eng in engines.ENGINES.values():
        for path in sorted(glob.glob(os.path.join(VERIF, eng.contracts_glob))):
            meta, in_block, stubs = {}, False, []
            if path.endswith(".tmpl"):
                for line in open(path):
                    m = META_RE.match(line)
                    if m:
                        meta.setdefault(m.group(1), []).append(m.group(2).strip())
                out.append({
                    "name": meta["unit"][0], "engine": eng.name, "file": path, "line": 1,
                    "props": [p.strip() for v in meta.get("props", []) for p in v.split(",") if p.strip()],
                    "kind": " ".join(meta.get("kind", ["complete"])),
                    "fns": [p.strip() for v in meta.get("fns", []) for p in v.split(",") if p.strip()],
                    "tier": meta.get("tier", ["quick"])[0], "assumes": meta.get("assume", []), "stubs": [],
                    "timeout": int(meta.get("timeout", ["300"])[0]), "expect": "pass", "cex": meta.get("cex", []),
                })
                continue
            for ln, line in enumerate(open(path), 1):
                m = META_RE.match(line)
                if m:
                    meta.setdefault(m.group(1), [])
                    meta[m.group(1)].append(m.group(2).strip())
                    in_block = True
                    continue
                if "kani::proof" in line or "verus-unit" in line:
                    in_block = True
                    continue
                s = re.search(r"kani::stub\(([^,]+),\s*([^)]+)\)", line)
                if s:
                    stubs.append(s.group(1).strip() + " -> " + s.group(2).strip())
                    continue
                f = FN_RE.match(line)
                if f and in_block and ("props" in meta or (f.group(1) or f.group(2)).startswith("canary")):
                    name = f.group(1) or f.group(2)
                    h = {
                        "name": name,
                        "engine": eng.name,
                        "file": path,
                        "line": ln,
                        "props": [p.strip() for v in meta.get("props", []) for p in v.split(",") if p.strip()],
                        "kind": " ".join(meta.get("kind", ["bounded(unspecified)"])),
                        "fns": [p.strip() for v in meta.get("fns", []) for p in v.split(",") if p.strip()],
                        "tier": (meta.get("tier", ["quick"])[0]),
                        "assumes": meta.get("assume", []),
                        "stubs": stubs,
                        "timeout": int(meta.get("timeout", ["300"])[0]),
                        "jobs": int(meta.get("jobs", ["16"])[0]),
                        "cbmc": " ".join(meta.get("cbmc", [])),
                        "expect": meta.get("expect", ["pass"])[0],
                    }
                    out.append(h)
                    meta, in_block, stubs = {}, False, []
                elif line.strip() and not line.strip().startswith(("#[", "//")):
                    if not f:
                        meta, in_block, stubs = {}, False, []
    return out


# --------------------------------------------------------------------------- claimed level

DECIDING_TIERS = ("quick", "thorough")


def deciding(allh, prop):
    """Harnesses whose verdict decides `prop`: canaries and tier `cex` harnesses (counterexample
    finders paired with a Verus unit, run only after an obligation has already failed) are not."""
    return [h for h in allh if prop in h["props"] and h["tier"] in DECIDING_TIERS
            and not h["name"].startswith("canary")]


def claimed_category(allh, prop):
    """The level of a property is a statement about the whole set of deciding harnesses (both
    tiers): `proof` only if every one is complete (loop-free / unbounded / operand-width unwinding
    with passing unwinding assertions); a single bounded stand-in makes it `other`.  MANIFEST.json
    (tools/gen_manifest.py) and every evidence file use this one function, so they cannot disagree."""
    hs = deciding(allh, prop)
    if level_override(prop) == "other":
        return "other"
    return "proof" if hs and all(h["kind"].startswith("complete") for h in hs) else "other"


def level_override(prop):
    """tools/manifest_text.json may DOWNGRADE a property to `other` ("level": "other") when its
    harnesses, though each complete for its function, cover only part of the property statement.
    It can never upgrade."""
    try:
        return json.load(open(os.path.join(VERIF, "tools", "manifest_text.json"))).get(prop, {}).get("level")
    except (OSError, ValueError):
        return None


# --------------------------------------------------------------------------- known findings

def load_known():
    p = os.path.join(VERIF, "known_findings.json")
    if not os.path.exists(p):
        return {"known": [], "fixed": []}
    return json.load(open(p))


def known_match(known, prop, obligation):
    for k in known.get("known", []):
        if k["property"] == prop and re.search(k["obligation_regex"], obligation):
            return k
    return None


# --------------------------------------------------------------------------- main check

def classify_failure(check):
    """-> ('violation'|'undecided', obligation name)"""
    cat = check.get("category", "")
    desc = check.get("description", "").strip('"')
    loc = check.get("location", {})
    where = f'{loc.get("file", "?")}:{loc.get("line", "?")}'
    if cat == "unwind":
        return "undecided", f"unwinding bound reached ({desc} at {where})"
    if cat == "unsupported_construct":
        return "undecided", f"unsupported construct reached ({desc[:80]} at {where})"
    m = re.match(r"(C\d+|CANARY)\.[A-Za-z0-9_.]+", desc)
    if m:
        return "violation", desc
    return "violation", f"panic-freedom: {desc} at {where} in {check.get('function', '?')}"


def run_property(prop, tier, seed):
    t0 = time.time()
    allh = discover()
    tiers = ("quick",) if tier == "quick" else ("quick", "thorough")
    hs = [h for h in allh if prop in h["props"] and h["tier"] in tiers]
    only = os.environ.get("VERIF_ONLY_ENGINE")  # development aid: run one engine's share of the property
    if only:
        hs = [h for h in hs if h["engine"] in only.split(",")]
    thorough_only = [h for h in allh if prop in h["props"] and h["tier"] == "thorough"]
    if not hs:
        log(f"no harness serves {prop}")
        return 2
    known = load_known()
    results, undecided, violations, knownhits = [], [], [], []
    evidence_units = []
    by_engine = {}
    for h in hs:
        by_engine.setdefault(h["engine"], []).append(h)
    # one process at a time per engine, from the first build to the last replay: counterexample extraction and
    # native replay rebuild in the same work and target directories as the run itself (two concurrent `cargo kani`
    # in one target directory corrupt each other's goto binaries - observed as spurious `free` / dereference failures)
    held = []
    for ename in sorted(by_engine):
        lk = open(os.path.join(VERIF, f".lock-{ename}"), "w")
        fcntl.flock(lk, fcntl.LOCK_EX)
        held.append(lk)
    run_property._held_locks = held  # released when the process exits
    for ename, ehs in by_engine.items():
        eng = engines.ENGINES[ename]
        canaries = [h for h in allh if h["engine"] == ename and h["name"].startswith("canary")]
        if True:
            res = eng.run(ehs + canaries, tier, log)
        evidence_units.append(res["unit"])
        if res.get("fatal"):
            undecided.append(f"{ename}: {res['fatal']}")
            continue
        for h in ehs + canaries:
            r = res["harnesses"].get(h["name"])
            if r is None:
                undecided.append(f"{h['name']}: no result reported")
                continue
            r["harness"] = h
            results.append(r)
            if h["name"].startswith("canary"):
                if r["status"] != "failed" or not any("CANARY" in o for o in r["failed_obligations"]):
                    undecided.append(f"canary {h['name']} did not fail (tool health)")
                continue
            if r["status"] == "undecided":
                undecided.append(f"{h['name']}: {r['reason']}")
            for u in r.get("undecided_obligations", []):
                undecided.append(f"{h['name']}: {u}")
            for c in r.get("unsat_covers", []):
                undecided.append(f"{h['name']}: cover not reachable (vacuity guard): {c}")
            for ob in r.get("failed_obligations", []):
                k = known_match(known, prop, ob)
                if k:
                    knownhits.append((k, ob, h))
                else:
                    violations.append((ob, h, r, eng))
    # known findings (each listed one printed once)
    seen = set()
    for k, ob, h in knownhits:
        if k["id"] not in seen:
            seen.add(k["id"])
            print(f"KNOWN-FINDING: property={prop} {k['what_fails']}")
    # violations: produce replay files
    vcount = 0
    os.makedirs(os.path.join(VERIF, "replays"), exist_ok=True)
    emitted = set()
    by_eng = {}
    for ob, h, r, eng in violations:
        if hasattr(eng, "prefetch_counterexamples"):
            by_eng.setdefault(eng.name, (eng, {}))[1][h["name"]] = h
    for eng, hmap in by_eng.values():
        try:
            eng.prefetch_counterexamples(list(hmap.values()), log)
        except Exception as e:  # noqa: BLE001
            log(f"[{eng.name}] counterexample prefetch failed: {e!r}")
    for ob, h, r, eng in violations:
        key = (h["name"], ob)
        if key in emitted:
            continue
        emitted.add(key)
        vcount += 1
        rp = os.path.join(VERIF, "replays", f"{prop}-{h['name']}-{hashlib.sha1(ob.encode()).hexdigest()[:8]}.json")
        rec = {
            "property": prop,
            "obligation": ob,
            "harness": h["name"],
            "engine": h["engine"],
            "contract_file": h["file"],
            "verifier_output": r.get("failed_checks", [])[:20],
            "tier": tier,
        }
        cex = None
        try:
            want = next((c.get("description", "") for c in r.get("failed_checks", []) if classify_failure(c)[1] == ob), None)
            cex = eng.counterexample(h, log, want)
        except Exception as e:  # noqa: BLE001
            rec["counterexample_error"] = repr(e)
        suffix = ""
        if cex and cex.get("via"):
            h = dict(h, _via=cex["via"])
            rec["counterexample_from"] = "paired Kani harness " + cex["via"]["name"]
            rec["replay_harness"] = cex["via"]["name"]
            rec["replay_engine"] = cex["via"]["engine"]
        if cex and cex.get("values") is not None:
            rec["values"] = cex["values"]
            rec["playback_source"] = cex.get("source", "")
            try:
                nat = eng.native_replay(h, cex["values"], log)
                rec["native_replay"] = nat
                if not nat.get("reproduced"):
                    suffix = " no-failing-input-found"
            except Exception as e:  # noqa: BLE001
                rec["native_replay"] = {"error": repr(e)}
                suffix = " no-failing-input-found"
        else:
            # a harness without symbolic inputs (concrete text enumerations) IS its own input: Kani emits no
            # playback values for it; run it natively with an empty value list
            nat = None
            try:
                nat = eng.native_replay(h, [], log)
            except Exception as e:  # noqa: BLE001
                rec["native_replay"] = {"error": repr(e)}
            if nat and nat.get("reproduced"):
                rec["values"] = []
                rec["native_replay"] = nat
                rec["note"] = "the harness has no symbolic input (concrete text); it was executed natively as is"
            else:
                rec["note"] = "the verifier gave no concrete input for this obligation"
                if nat:
                    rec["native_replay_without_values"] = nat
                if cex:
                    rec["verifier_extra"] = cex.get("raw", "")[-4000:]
                suffix = " no-failing-input-found"
        json.dump(rec, open(rp, "w"), indent=1)
        print(f"VIOLATION property={prop} replay={rp}{suffix}")
    # evidence
    wall = time.time() - t0
    write_evidence(prop, tier, seed, results, evidence_units, undecided, vcount, knownhits, thorough_only, wall,
                   claimed_category(allh, prop), [h for h in deciding(allh, prop) if not h["kind"].startswith("complete")])
    for u in undecided:
        log("UNDECIDED:", u)
    if vcount:
        return 1
    if undecided:
        return 2
    return 0


def write_evidence(prop, tier, seed, results, units, undecided, vcount, knownhits, thorough_only, wall, level, bounded_all):
    obligations = discharged = 0
    samples, fns, solver_s, harness_rows, trusted, assumptions = [], {}, 0.0, [], set(), set()
    all_complete = True
    bounds = []
    for r in results:
        h = r["harness"]
        if h["name"].startswith("canary"):
            harness_rows.append({"harness": h["name"], "role": "canary (must fail)", "status": r["status"]})
            continue
        obligations += r.get("obligations", 0)
        discharged += r.get("discharged", 0)
        solver_s += r.get("solver_s", 0.0)
        complete = h["kind"].startswith("complete")
        all_complete &= complete
        if not complete:
            bounds.append(f"{h['name']}: {h['kind']}")
        harness_rows.append({
            "harness": h["name"], "engine": h["engine"], "kind": h["kind"], "status": r["status"],
            "obligations": r.get("obligations", 0), "discharged": r.get("discharged", 0),
            "named_postconditions": r.get("named", []), "covers_satisfied": r.get("covers_sat", 0),
            "back_end": r.get("back_end", ""), "solver_s": round(r.get("solver_s", 0.0), 3),
            "wall_s": round(r.get("wall_s", 0.0), 2), "functions": h["fns"],
        })
        for n in r.get("named", []):
            samples.append(f"{h['name']} :: {n}")
        for f in h["fns"]:
            fns[f] = True
        for s in h["stubs"]:
            trusted.add("stub (assumed contract): " + s)
        for a in h["assumes"]:
            assumptions.add(a)
        for s in r.get("stubs_applied", []):
            trusted.add("stub applied by Kani: " + s)
    for u in units:
        for t in u.get("trusted", []):
            trusted.add(t)
        for a in u.get("assumptions", []):
            assumptions.add(a)
    # `level` is the property-level claim (claimed_category), identical to MANIFEST.json; what this
    # particular run did and did not decide is spelled out in the explanation and in `harnesses`.
    for h in bounded_all:
        b = f"{h['name']}: {h['kind']}"
        if b not in bounds:
            bounds.append(b + (" (thorough tier only; not run in this tier)" if h["tier"] == "thorough" and tier == "quick" else ""))
    all_complete = all_complete and not bounded_all
    partial = level_override(prop) == "other" and all_complete
    expl = ("PARTIAL coverage of the property statement (see MANIFEST level_claimed.text for what is and is not decided); "
            "every harness that ran is loop-free, unbounded (Verus) or bounded only by operand width with passing unwinding assertions"
            if partial else
            "every harness is loop-free or bounded only by operand width with passing unwinding assertions"
            if all_complete else
            "contract-based; some units are BOUNDED stand-ins (never counted as proved): " + "; ".join(bounds))
    if undecided:
        expl += " | UNDECIDED parts this run: " + "; ".join(undecided)
    if tier == "quick" and thorough_only:
        expl += " | thorough-only harnesses not run in this tier: " + ", ".join(h["name"] for h in thorough_only)
    ev = {
        "property_id": prop, "tier": tier, "seed": seed, "level": level,
        "coverage": {
            "obligations": obligations, "discharged": discharged,
            "checker_cmd": "; ".join(u.get("cmd", "") for u in units),
            "trusted_base": sorted(trusted),
            "explanation": expl,
            "samples": samples[:60] or ["(none)"],
            "evaluations": max(obligations, 1),
            "distinct_nontrivial": max(len(samples), 0),
            "rule": "one evaluation = one verifier obligation (Kani/CBMC check or Verus query); distinct_nontrivial = named postconditions of the contracts (assertions named C<id>.*), as opposed to generated safety checks",
            "functions_under_contract": sorted(fns),
            "harnesses": harness_rows,
            "real_sources": [u.get("sources", {}) for u in units],
            "solver_time_s": round(solver_s, 3),
            "known_findings_hit": [k["id"] for k, _, _ in knownhits],
            "exhaustive": False,
        },
        "assumptions": sorted(assumptions) + [
            "Kani 0.68 / CBMC 6.11 / cadical (bit-precise machine arithmetic, allocation infallible, termination not checked)",
        ],
        "wall_s": round(wall, 2),
        "violations": vcount,
    }
    # runs against a scratch tree (VERIF_REPO set: seeded changes, mutations) must not overwrite the evidence of /repo
    edir = os.path.join(VERIF, "evidence") if REPO == "/repo" and not os.environ.get("VERIF_EVIDENCE_SCRATCH") else os.path.join(VERIF, ".work", "evidence-scratch")
    os.makedirs(edir, exist_ok=True)
    json.dump(ev, open(os.path.join(edir, f"{prop}.json"), "w"), indent=1)


def do_replay(path):
    rec = json.load(open(path))
    eng = engines.ENGINES[rec["engine"]]
    if rec.get("values") is None:
        print("replay file carries no concrete input:", rec.get("note", ""))
        print("failed obligation:", rec["obligation"])
        return 2
    hname = rec.get("replay_harness", rec["harness"])
    eng = engines.ENGINES[rec.get("replay_engine", rec["engine"])]
    h = next(h for h in discover() if h["name"] == hname)
    nat = eng.native_replay(h, rec["values"], log)
    print(json.dumps(nat, indent=1))
    return 1 if nat.get("reproduced") else 0


def main():
    a = sys.argv[1:]
    if not a:
        print(__doc__)
        return 2
    if a[0] == "list":
        for h in discover():
            print(h["engine"], ",".join(h["props"]) or "-", h["name"], h["tier"], h["kind"])
        return 0
    if a[0] == "replay":
        return do_replay(a[1])
    prop = a[0]
    tier = os.environ.get("VERIF_TIER", "quick")
    if "--tier" in a:
        tier = a[a.index("--tier") + 1]
    seed = int(os.environ.get("VERIF_SEED", "0") or 0)
    return run_property(prop, tier, seed)


if __name__ == "__main__":
    sys.exit(main())
