// Native replay runner (engine E1): runs one harness body of /verif/contracts/ordinals on recorded
// values against the real `ordinals` sources, compiled by the ordinary compiler in the debug profile.
// usage: replay_runner <harness-name>   (values as JSON [[u8,..],..] on stdin)
// exit 0 = body completed, 1 = assertion/panic reproduced, 3 = outside precondition, 4 = mismatch
use std::io::Read;

fn parse(s: &str) -> Vec<Vec<u8>> {
  // minimal parser for [[1,2],[3]]
  let mut out = Vec::new();
  let mut cur: Option<Vec<u8>> = None;
  let mut num: Option<u32> = None;
  let mut depth = 0;
  for c in s.chars() {
    match c {
      '[' => {
        depth += 1;
        if depth == 2 {
          cur = Some(Vec::new());
        }
      }
      ']' => {
        if let (Some(n), Some(v)) = (num.take(), cur.as_mut()) {
          v.push(n as u8);
        }
        if depth == 2 {
          out.push(cur.take().unwrap());
        }
        depth -= 1;
      }
      ',' => {
        if let (Some(n), Some(v)) = (num.take(), cur.as_mut()) {
          v.push(n as u8);
        }
      }
      d if d.is_ascii_digit() => num = Some(num.unwrap_or(0) * 10 + d.to_digit(10).unwrap()),
      _ => {}
    }
  }
  out
}

fn main() {
  let name = std::env::args().nth(1).expect("harness name");
  let mut s = String::new();
  std::io::stdin().read_to_string(&mut s).unwrap();
  ordinals::verif_contracts::kani::load(parse(&s));
  let r = std::panic::catch_unwind(|| ordinals::verif_contracts::registry::run(&name));
  match r {
    Ok(true) => {
      println!("REPLAY-PASSED: harness body completed without a failed assertion or panic");
      std::process::exit(0);
    }
    Ok(false) => {
      println!("REPLAY-ERROR: unknown harness {name}");
      std::process::exit(4);
    }
    Err(_) => {
      println!("REPLAY-FAILED: the recorded input makes the obligation fail on the real code (panic message above)");
      std::process::exit(1);
    }
  }
}
