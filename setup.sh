#!/bin/sh
# Offline setup: warms the Kani build caches of the harness crates from files on disk only.
# Every check rebuilds what it verifies from /repo's working tree; nothing here is required for
# correctness, only for speed.
set -e
cd /verif
mkdir -p .work .cache evidence replays
python3 tools/overlay.py >/dev/null
python3 tools/overlay_ord.py >/dev/null
exit 0
