#!/usr/bin/env python3
"""Mechanical item extractor for Rust source (lexer-aware brace matching).

find_item(src, ["impl Epoch", "fn subsidy"]) -> Item with the exact byte range of the item in the
source text.  Nothing is rewritten here; callers that must adapt an item to a verifier's dialect do
so through the small, explicit transformations in this file (named_return, filter_attrs), each of
which is recorded by the assembler.
"""
import hashlib, re

KEYWORDS_BRACE = {"fn", "impl", "mod", "struct", "enum", "trait", "union", "macro_rules"}
KEYWORDS_SEMI = {"const", "static", "type", "use", "extern"}


class AnchorLost(Exception):
    pass


def tokenize(src, start=0, end=None):
    """yield (kind, text, pos) ; kinds: ws, comment, str, char, lifetime, ident, num, punct"""
    i = start
    n = len(src) if end is None else end
    while i < n:
        c = src[i]
        if c.isspace():
            j = i
            while j < n and src[j].isspace():
                j += 1
            yield ("ws", src[i:j], i)
            i = j
        elif src.startswith("//", i):
            j = src.find("\n", i)
            j = n if j < 0 or j > n else j
            yield ("comment", src[i:j], i)
            i = j
        elif src.startswith("/*", i):
            depth, j = 1, i + 2
            while j < n and depth:
                if src.startswith("/*", j):
                    depth += 1
                    j += 2
                elif src.startswith("*/", j):
                    depth -= 1
                    j += 2
                else:
                    j += 1
            yield ("comment", src[i:j], i)
            i = j
        elif c == '"' or (c in "br" and re.match(r'(b?r#*"|b")', src[i:i + 12])):
            m = re.match(r'(b?)(r(#*))?"', src[i:i + 40])
            if m and m.group(2):  # raw string
                close = '"' + m.group(3)
                j = src.find(close, i + m.end())
                j = j + len(close)
            else:
                j = i + (m.end() if m else 1)
                while j < n and src[j] != '"':
                    j += 2 if src[j] == "\\" else 1
                j += 1
            yield ("str", src[i:j], i)
            i = j
        elif c == "'":
            m = re.match(r"'(\\.[^']*|[^\\'])'", src[i:i + 14])
            if m:
                yield ("char", m.group(0), i)
                i += m.end()
            else:
                m = re.match(r"'[A-Za-z_][A-Za-z0-9_]*", src[i:])
                yield ("lifetime", m.group(0), i)
                i += m.end()
        elif c.isalpha() or c == "_":
            m = re.match(r"[A-Za-z_][A-Za-z0-9_]*", src[i:])
            yield ("ident", m.group(0), i)
            i += m.end()
        elif c.isdigit():
            m = re.match(r"[0-9][A-Za-z0-9_.]*", src[i:])
            t = m.group(0)
            # don't swallow method calls / ranges like 1..2 or 1.foo()
            if ".." in t:
                t = t[:t.index("..")]
            elif re.search(r"\.[A-Za-z_]", t):
                t = t[:re.search(r"\.[A-Za-z_]", t).start()]
            yield ("num", t, i)
            i += len(t)
        else:
            yield ("punct", c, i)
            i += 1


class Item:
    def __init__(self, src, start, end, kind, name, head_end, body_start):
        self.src, self.start, self.end = src, start, end
        self.kind, self.name = kind, name
        self.head_end = head_end      # position where the signature/header ends (before `{`), or end
        self.body_start = body_start  # position of the opening `{` of the body (or None)

    @property
    def text(self):
        return self.src[self.start:self.end]

    @property
    def first_line(self):
        return self.src.count("\n", 0, self.start) + 1

    @property
    def last_line(self):
        return self.src.count("\n", 0, self.end) + 1

    def sha(self):
        return hashlib.sha256(self.text.encode()).hexdigest()

    def inner_range(self):
        """byte range strictly inside the item's braces"""
        return self.body_start + 1, self.end - 1


def items(src, start=0, end=None):
    """split a region (file or inside of impl/mod braces) into items"""
    end = len(src) if end is None else end
    toks = [t for t in tokenize(src, start, end)]
    out = []
    i = 0
    n = len(toks)
    while i < n:
        # skip whitespace / plain comments between items (doc comments and attributes belong to the item)
        while i < n and (toks[i][0] == "ws" or (toks[i][0] == "comment" and not toks[i][1].startswith(("///", "//!")))):
            i += 1
        if i >= n:
            break
        item_start = toks[i][2]
        depth = 0       # () [] {}
        kind = name = None
        head_end = body_start = None
        j = i
        attr_depth = 0
        in_attr = False
        prev_sig = None
        while j < n:
            k, t, p = toks[j]
            if k in ("ws", "comment"):
                j += 1
                continue
            if k == "punct":
                if t == "#" and depth == 0 and kind is None:
                    in_attr = True
                if t in "([{":
                    if t == "{" and depth == 0 and kind in KEYWORDS_BRACE and body_start is None:
                        body_start = p
                        head_end = p
                    depth += 1
                elif t in ")]}":
                    depth -= 1
                    if depth == 0 and in_attr and t == "]":
                        in_attr = False
                        j += 1
                        continue
                    if depth == 0 and t == "}" and kind in KEYWORDS_BRACE and body_start is not None:
                        j += 1
                        break
                elif t == ";" and depth == 0 and not in_attr:
                    if kind in KEYWORDS_SEMI or kind in ("struct", "fn", "mod", "enum", "trait", "union") or kind is None:
                        head_end = head_end or p
                        j += 1
                        break
            elif k == "ident" and depth == 0 and not in_attr and kind is None:
                # macro invocation item (`define_table! { .. }`, `foo!(..);`): an item of its own
                la = j + 1
                while la < n and toks[la][0] in ("ws", "comment"):
                    la += 1
                if la < n and toks[la][1] == "!" and t not in KEYWORDS_BRACE:
                    kind, name = "macro_call", t
                    # find the delimiter and its match
                    lb = la + 1
                    while lb < n and toks[lb][0] in ("ws", "comment"):
                        lb += 1
                    d2, jj = 0, lb
                    while jj < n:
                        kk, tt, pp = toks[jj]
                        if kk == "punct" and tt in "([{":
                            d2 += 1
                        elif kk == "punct" and tt in ")]}":
                            d2 -= 1
                            if d2 == 0:
                                break
                        jj += 1
                    brace = lb < n and toks[lb][1] == "{"
                    jj += 1
                    if not brace:
                        while jj < n and toks[jj][0] in ("ws", "comment"):
                            jj += 1
                        if jj < n and toks[jj][1] == ";":
                            jj += 1
                    head_end = toks[jj - 1][2]
                    j = jj
                    break
                if t in KEYWORDS_BRACE or t in KEYWORDS_SEMI:
                    # `const fn`, `unsafe fn`, `extern "C" fn`
                    if t in ("const", "extern"):
                        # look ahead for fn
                        la = j + 1
                        while la < n and toks[la][0] in ("ws", "comment", "str"):
                            la += 1
                        if la < n and toks[la][1] in ("fn", "unsafe", "async"):
                            j += 1
                            continue
                    kind = t
                    if t == "impl":
                        # header text up to `{`
                        la = j
                        d2 = 0
                        while la < n:
                            kk, tt, pp = toks[la]
                            if kk == "punct" and tt == "{" and d2 == 0:
                                break
                            if kk == "punct" and tt in "([":
                                d2 += 1
                            if kk == "punct" and tt in ")]":
                                d2 -= 1
                            la += 1
                        hdr = src[p:toks[la][2]] if la < n else src[p:end]
                        name = " ".join(hdr.split())
                    else:
                        la = j + 1
                        while la < n and toks[la][0] in ("ws", "comment"):
                            la += 1
                        name = toks[la][1] if la < n else ""
                        if t == "macro_rules":
                            la += 1
                            while la < n and toks[la][0] in ("ws", "comment", "punct") and toks[la][1] != "{" and toks[la][0] != "ident":
                                la += 1
                            name = toks[la][1] if la < n else ""
            j += 1
        item_end = toks[j][2] if j < n else end
        if j >= n:
            item_end = end
        # trim trailing whitespace
        text_end = item_end
        while text_end > item_start and src[text_end - 1].isspace():
            text_end -= 1
        if kind:
            out.append(Item(src, item_start, text_end, kind, name, head_end if head_end is not None else text_end, body_start))
        i = j
    return out


def norm(s):
    return re.sub(r"\s+", "", s)


def find_item(src, path):
    """path: list of selectors such as 'impl Epoch', 'fn subsidy', 'struct Sat', 'const STARTING_SATS',
    'impl From<Sat> for Epoch', 'mod foo'."""
    start, end = 0, len(src)
    it = None
    for sel in path:
        kw, _, nm = sel.partition(" ")
        found = None
        for cand in items(src, start, end):
            if kw == "impl":
                if cand.kind == "impl" and norm(cand.name) == norm(sel):
                    found = cand
                    break
            elif cand.kind == kw and cand.name == nm.strip():
                found = cand
                break
        if not found:
            raise AnchorLost(f"anchor not found: {' :: '.join(path)} (at `{sel}`)")
        it = found
        if it.body_start is not None:
            start, end = it.inner_range()
    return it


# ------------------------------------------------------------------ dialect transformations

STD_DERIVES = {"Copy", "Clone", "Eq", "PartialEq", "Ord", "PartialOrd", "Debug", "Hash", "Default"}


def split_attrs(item):
    """-> (list of attribute/doc-comment strings, rest of item text)"""
    src = item.text
    attrs = []
    pos = 0
    while True:
        m = re.match(r"\s*(///[^\n]*\n|//![^\n]*\n)", src[pos:])
        if m:
            attrs.append(m.group(1).strip())
            pos += m.end()
            continue
        m = re.match(r"\s*#\[", src[pos:])
        if m:
            # find matching ]
            depth = 0
            j = pos + m.end() - 1
            for k, t, p in tokenize(src, j):
                if k == "punct" and t == "[":
                    depth += 1
                if k == "punct" and t == "]":
                    depth -= 1
                    if depth == 0:
                        j = p + 1
                        break
            attrs.append(src[pos + m.start():j].strip())
            pos = j
            continue
        break
    return attrs, src[pos:].lstrip("\n")


def filter_attrs(attrs):
    """keep std derives and lint attributes; report what was dropped"""
    kept, dropped = [], []
    for a in attrs:
        if a.startswith("//"):
            continue
        m = re.match(r"#\[derive\((.*)\)\]$", a, re.S)
        if m:
            names = [x.strip() for x in m.group(1).split(",") if x.strip()]
            keep = [x for x in names if x in STD_DERIVES]
            drop = [x for x in names if x not in STD_DERIVES]
            if keep:
                kept.append("#[derive(" + ", ".join(keep) + ")]")
            dropped += [f"derive({x})" for x in drop]
        elif re.match(r"#\[(allow|warn|deny|inline|must_use|repr)\b", a):
            kept.append(a)
        else:
            dropped.append(a)
    return kept, dropped


def fn_parts(item):
    """-> (attrs, signature text without trailing space, body text incl. braces)"""
    attrs, rest = split_attrs(item)
    src = item.src
    body = src[item.body_start:item.end]
    # signature = from end of attrs to body_start
    sig_start = item.end - len(rest) if rest else item.start
    # recompute robustly: find `rest` start in item text
    off = item.text.find(rest[:40]) if rest else 0
    sig = item.text[off:item.body_start - item.start].rstrip()
    return attrs, sig, body


def named_return(sig, name="r"):
    """`fn f(..) -> T` => `fn f(..) -> (r: T)` (Verus needs a name for the result)."""
    depth = 0
    toks = list(tokenize(sig))
    for idx, (k, t, p) in enumerate(toks):
        if k == "punct" and t in "([<":
            depth += 1 if t != "<" else 0
        if k == "punct" and t in ")]":
            depth -= 1
        if k == "punct" and t == "-" and depth == 0 and sig[p:p + 2] == "->":
            ret = sig[p + 2:].strip()
            # strip a trailing where clause (none in the functions extracted today)
            return sig[:p] + f"-> ({name}: {ret})"
    return sig
