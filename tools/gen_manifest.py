#!/usr/bin/env python3
"""Regenerates MANIFEST.json from the harness metadata in contracts/ and the tables below."""
import json, os, sys
VERIF = os.path.dirname(os.path.dirname(os.path.abspath(__file__)))
sys.path.insert(0, os.path.join(VERIF, "driver"))
import main  # noqa: E402

NA = {
 "C12": "relation between whole runs of Index::update over redb write transactions and thread schedules; no function contract states it and the path cannot be symbolically executed (DESIGN §6)",
 "C13": "quantifies over crash points inside redb commits/savepoints; durability is a property of the storage engine and OS, outside any contract on ord's functions (DESIGN §6)",
 "C14": "protocol-level invariant over savepoints, node state and rollback across many update calls with RPC; only a model could be proved, which is a different family (DESIGN §6)",
 "C15": "two-run relational property over whole histories and the fetcher thread/channel path (DESIGN §6)",
 "C17": "mechanism is the glue in index_utxo_entries/commit over redb multimaps, not a kernel with a separable contract (DESIGN §6)",
 "C18": "async axum handlers over redb read transactions; no function within verifier reach (DESIGN §6)",
 "C19": "depends on the axum middleware stack, route table and delegate lookups (DESIGN §6)",
 "C21": "cross-component over wallet RPC, signing and the indexer (DESIGN §6)",
 "C22": "constructors read the wallet database and RPC; no pure function to put under contract (DESIGN §6)",
 "C23": "behaviour of bitcoind's fundrawtransaction under locks (DESIGN §6)",
 "C24": "Accept::run is RPC-driven (PSBT processing by the node) end to end (DESIGN §6)",
 "C28": "minicbor derive output and the brotli codec (macro-generated code and a large external codec); size-limit loop needs ~1000 iterations with an external reader (DESIGN §6)",
}

K_FIFO = "not decided as a whole: the per-transaction kernel (Updater::index_transaction_sats) is proved in the C01 unit, but this property is about the partition of ALL mined sats over the UTXO set at every height and about the lookup functions (Index::find, find_range, list, rare_sat_satpoint), which scan redb tables and are outside both verifiers' reach; the removal of spent outputs before their ranges are reused is glue inside Updater::index_utxo_entries (DESIGN §0.6, §6)"
K_INS = "not decided: lives in InscriptionUpdater::index_inscriptions over redb tables, HashMaps and Vec sorting; the function is outside Verus's subset and was not brought under Kani in the budget (engine E2 exists since round 3 but only value-level files and small extracted kernels fit it; DESIGN §0.2, §6)"
K_ARTIFACT = "not decided: the deciding function RuneUpdater::index_runes (edict allocation, pointer, burns) cannot be taken by either verifier - Kani 0.68 aborts with an internal compiler error on every read of the discriminant of ordinals::Artifact (niche in the 128-bit tag of an Option<u128>; measured with probe harnesses, DESIGN §0.6), and Verus cannot take it either (a closure capturing two mutable maps used at three call sites, about ten std iterator pipelines and seven operator traits of Lot would each need a rewrite rule or a stand-in - measured against the four functions that were brought in with such rules in round 4, DESIGN §0.2); the kernel functions around it are under contract (C10 mint, C11 etched / create_rune_entry, C08 unallocated)"
K_ORD = "not decided: the functions live in the `ord` crate outside the value-level files and small kernels that engine E2 reaches (DESIGN §0.2, §6)"
UNBUILT = {
 "C09": K_ARTIFACT + ". The arithmetic it uses (Lot, even split) is under contract in C08",
 "C16": "not decided as stated (whole-chain totality): panic-freedom obligations are discharged for the functions under contract in C25/C26 (varint, Runestone::integers), C27 (from_value, pointer), C31 (parsers), C35 (decoders of stored values), C10/C11/C08 (mint, etched, create_rune_entry, update, unallocated) and - under stated preconditions that are the callers' obligations - C01/C03/C05 (index_transaction_sats never runs out of input ranges, calculate_sat never reaches unreachable!(), update_inscription_location never unwraps a missing entry), but envelope parsing, Properties::from_cbor, index_inscriptions, index_runes and the block-level glue that would discharge those preconditions are not under contract, so the property as a whole is not claimed",
 "C20": K_ORD + "; TransactionBuilder is ~1000 lines over BTreeMap/Vec state with f64 fee arithmetic",
}

TEXT = json.load(open(os.path.join(VERIF, "tools/manifest_text.json")))

def technique_of(phs):
    engs = {h["engine"] for h in phs}
    parts = []
    if "ev" in engs:
        parts.append("Verus/Z3 deductive proof: requires/ensures, loop invariants and lemmas spliced onto the real function text extracted each run (unbounded)")
    if engs & {"e1", "e1s", "e2"}:
        where = []
        if "e1" in engs:
            where.append("the real `ordinals` crate as it ships")
        if "e1s" in engs:
            where.append("the `ordinals` crate with std HashMap/VecDeque redirected to list shims")
        if "e2" in engs:
            where.append("real `ord` files / verbatim-extracted items under a substitute crate root")
        parts.append("Kani/CBMC contract harnesses (assume precondition, call the real function, assert the postcondition; callees under contract via verified stubs, ghost logs and recording stubs) on " + ", ".join(where))
    return "contract-based deductive verification of the real code: " + "; ".join(parts)


def gen():
    hs = main.discover()
    props = [json.loads(l)["id"] for l in open(os.path.join(VERIF, "properties.jsonl"))]
    claimed = sorted({p for p in TEXT if main.deciding(hs, p)})
    checks = []
    for p in props:
        if p not in claimed:
            continue
        phs = main.deciding(hs, p)
        complete = main.claimed_category(hs, p) == "proof"
        t = TEXT[p]
        checks.append({
            "property_id": p,
            "quick_cmd": f"./check {p} --tier quick",
            "thorough_cmd": f"./check {p} --tier thorough",
            "evidence_file": f"evidence/{p}.json",
            "replay_cmd_template": "./check replay {path}",
            "engine": "+".join(sorted({h["engine"] for h in phs})),
            "level_claimed": {"category": "proof" if complete else "other", "text": t["text"], "design_ref": t.get("design_ref", "DESIGN.md §4 " + p)},
            "level_note": t["note"],
            "technique": t.get("technique", technique_of(phs)),
        })
    na = []
    for p in props:
        if p in claimed:
            continue
        na.append({"property_id": p, "reason": NA.get(p, TEXT.get(p, {}).get("na", UNBUILT.get(p, "not decided: no unit of this family was brought to a passing, seeded-break-detecting state within the budget (DESIGN §6)")))})
    m = {
        "version": 1,
        "setup_cmd": "./setup.sh",
        "hooks": {
            "guard": "ordinals_ord_verif",
            "enable": "no hook is committed in /repo: tools/overlay.py copies the real sources on every run and appends one `#[cfg(any(kani, ordinals_ord_verif))] mod verif_contracts;` line per module; native replay builds that copy with RUSTFLAGS='--cfg ordinals_ord_verif'",
            "baseline_off_cmd": "cd /repo && cargo test --workspace --no-fail-fast --offline",
            "source_commits": [],
            "add_only": True,
        },
        "engines": [
            {"name": "e1", "path": "contracts/ordinals", "serves_properties": sorted({p for h in hs if h["engine"] == "e1" for p in h["props"]}), "kind_free_text": "Kani 0.68/CBMC proof harnesses compiled as child modules inside a byte-for-byte copy of the real `ordinals` crate"},
        ] + [
            {"name": e, "path": main.engines.ENGINES[e].contracts_glob, "serves_properties": sorted({p for h in hs if h["engine"] == e for p in h["props"]}), "kind_free_text": getattr(main.engines.ENGINES[e], "describe", e)}
            for e in main.engines.ENGINES if e != "e1"
        ],
        "checks": checks,
        "not_applicable": na,
        "notes": "Contract-based deductive verification of the real code. Exit 0 pass / 1 VIOLATION / 2 undecided (never an alarm). See DESIGN.md.",
    }
    json.dump(m, open(os.path.join(VERIF, "MANIFEST.json"), "w"), indent=1)
    print("claimed:", claimed)

if __name__ == "__main__":
    gen()
