#!/usr/bin/env python3
"""Regenerates MANIFEST.json from the harness metadata in contracts/ and the tables below."""
import json, os, sys
VERIF = os.path.dirname(os.path.dirname(os.path.abspath(__file__)))
sys.path.insert(0, os.path.join(VERIF, "driver"))
import main  # noqa: E402

NA = {
 "C12": "relation between whole runs of Index::update over redb write transactions and thread schedules; no function contract states it and the path cannot be symbolically executed (DESIGN §6)",
 "C13": "quantifies over crash points inside redb commits/savepoints; durability is a property of the storage engine and OS, outside any contract on ord's functions (DESIGN §6)",
 "C14": "protocol-level invariant over savepoints, node state and rollback across many update calls with RPC; only a model could be proved, which is a different family (DESIGN §6)",
 "C15": "two-run relational property over whole histories and the fetcher thread/channel path (DESIGN §6)",
 "C17": "mechanism is the glue in index_utxo_entries/commit over redb multimaps, not a kernel with a separable contract (DESIGN §6)",
 "C18": "async axum handlers over redb read transactions; no function within verifier reach (DESIGN §6)",
 "C19": "depends on the axum middleware stack, route table and delegate lookups (DESIGN §6)",
 "C21": "cross-component over wallet RPC, signing and the indexer (DESIGN §6)",
 "C22": "constructors read the wallet database and RPC; no pure function to put under contract (DESIGN §6)",
 "C23": "behaviour of bitcoind's fundrawtransaction under locks (DESIGN §6)",
 "C24": "Accept::run is RPC-driven (PSBT processing by the node) end to end (DESIGN §6)",
 "C28": "minicbor derive output and the brotli codec (macro-generated code and a large external codec); size-limit loop needs ~1000 iterations with an external reader (DESIGN §6)",
}

K_FIFO = "not decided: its contract is stated in DESIGN §4 over the per-transaction kernel (index_transaction_sats, U-FIFO), but the extracted kernel did not finish under Kani/CBMC even for 2 ranges x 2 outputs (20 min), and Verus rejects its redb/HashMap/iterator code; a smaller stand-in would be a model, not the code (DESIGN §6)"
K_INS = "not decided: lives in InscriptionUpdater::index_inscriptions over redb tables, HashMaps and Vec sorting inside the `ord` crate; no engine for `ord`-crate files was built and the function is outside both verifiers' reach without rewriting it (DESIGN §6)"
K_RUNES = "not decided as a whole: the leaf contracts it rests on are proved under C25 (Etching::supply, Edict::from_integers, RuneId delta/next), but the per-transaction kernel RuneUpdater::index_runes (HashMap<RuneId, Lot>, redb tables, `ord` crate) was not brought under a verifier (DESIGN §6)"
K_ORD = "not decided: the functions live in the `ord` crate (src/), for which no extraction engine was built in the budget; the `ordinals`-crate parts are covered under C25/C26/C30-C33 (DESIGN §6)"
UNBUILT = {
 "C01": K_FIFO, "C02": K_FIFO, "C03": K_FIFO + "; the inscription-movement half is in index_inscriptions (see C04)",
 "C04": K_INS, "C05": K_INS, "C06": K_INS, "C07": K_INS,
 "C08": K_RUNES, "C09": K_RUNES, "C10": K_RUNES, "C11": K_RUNES,
 "C16": "not decided as stated (whole-chain totality): the totality of Runestone::integers and varint::decode is proved under C25/C26 and parser panic-freedom under C31, but envelope parsing, Properties::from_cbor and the updaters are in the `ord` crate with no engine built (DESIGN §6)",
 "C20": K_ORD + "; TransactionBuilder is additionally ~1000 lines over BTreeMap/Vec state",
 "C27": K_ORD + "; envelope parsing runs on bitcoin::script::Instructions",
 "C34": K_ORD + "; Decimal::from_str is string-level code that CBMC did not finish on 7 characters (40 min); two overflow defects are known from reading only (DESIGN §5) and are NOT decided by any check here",
 "C35": K_ORD, "C36": K_ORD,
 "C37": K_RUNES + "; the inscription events are emitted from index_inscriptions (see C04)",
}

TEXT = json.load(open(os.path.join(VERIF, "tools/manifest_text.json")))

def gen():
    hs = main.discover()
    props = [json.loads(l)["id"] for l in open(os.path.join(VERIF, "properties.jsonl"))]
    claimed = sorted({p for p in TEXT if main.deciding(hs, p)})
    checks = []
    for p in props:
        if p not in claimed:
            continue
        phs = main.deciding(hs, p)
        complete = main.claimed_category(hs, p) == "proof"
        t = TEXT[p]
        checks.append({
            "property_id": p,
            "quick_cmd": f"./check {p} --tier quick",
            "thorough_cmd": f"./check {p} --tier thorough",
            "evidence_file": f"evidence/{p}.json",
            "replay_cmd_template": "./check replay {path}",
            "engine": "+".join(sorted({h["engine"] for h in phs})),
            "level_claimed": {"category": "proof" if complete else "other", "text": t["text"], "design_ref": t.get("design_ref", "DESIGN.md §4 " + p)},
            "level_note": t["note"],
            "technique": t.get("technique", "contract-based deductive verification: Kani/CBMC proof harnesses (pre/postconditions) on the real functions"),
        })
    na = []
    for p in props:
        if p in claimed:
            continue
        na.append({"property_id": p, "reason": NA.get(p, TEXT.get(p, {}).get("na", UNBUILT.get(p, "not decided: no unit of this family was brought to a passing, seeded-break-detecting state within the budget (DESIGN §6)")))})
    m = {
        "version": 1,
        "setup_cmd": "./setup.sh",
        "hooks": {
            "guard": "ordinals_ord_verif",
            "enable": "no hook is committed in /repo: tools/overlay.py copies the real sources on every run and appends one `#[cfg(any(kani, ordinals_ord_verif))] mod verif_contracts;` line per module; native replay builds that copy with RUSTFLAGS='--cfg ordinals_ord_verif'",
            "baseline_off_cmd": "cd /repo && cargo test --workspace --no-fail-fast --offline",
            "source_commits": [],
            "add_only": True,
        },
        "engines": [
            {"name": "e1", "path": "contracts/ordinals", "serves_properties": sorted({p for h in hs if h["engine"] == "e1" for p in h["props"]}), "kind_free_text": "Kani 0.68/CBMC proof harnesses compiled as child modules inside a byte-for-byte copy of the real `ordinals` crate"},
        ] + [
            {"name": e, "path": main.engines.ENGINES[e].contracts_glob, "serves_properties": sorted({p for h in hs if h["engine"] == e for p in h["props"]}), "kind_free_text": getattr(main.engines.ENGINES[e], "describe", e)}
            for e in main.engines.ENGINES if e != "e1"
        ],
        "checks": checks,
        "not_applicable": na,
        "notes": "Contract-based deductive verification of the real code. Exit 0 pass / 1 VIOLATION / 2 undecided (never an alarm). See DESIGN.md.",
    }
    json.dump(m, open(os.path.join(VERIF, "MANIFEST.json"), "w"), indent=1)
    print("claimed:", claimed)

if __name__ == "__main__":
    gen()
