#!/bin/sh
# usage: tools/kprobe.sh <e1|e2> <per-harness-timeout-s> <log-name> harness...   (development probe; runs in the background)
eng=$1; tmo=$2; log=$3; shift 3
cd /verif
exec 9>/verif/.lock-$eng; flock -n 9 || { echo "engine $eng busy"; exit 1; }
if [ "$eng" = e2 ]; then python3 tools/overlay_ord.py >/dev/null || exit 2;
elif [ "$eng" = e1s ]; then python3 -c "import sys; sys.path.insert(0,'/verif/tools'); import overlay; overlay.build('/verif/.work/e1s', variant='e1s')" >/dev/null || exit 2;
else python3 tools/overlay.py >/dev/null || exit 2; fi
hs=""; for h in "$@"; do hs="$hs --harness $h"; done
cd /verif/.work/$eng
nohup timeout 14400 cargo kani --target-dir /verif/.cache/kani-$eng -Z stubbing -Z unstable-options -j 8 --output-format=terse --harness-timeout ${tmo}s $hs > /verif/.work/probe-$log.log 2>&1 &
echo started probe-$log
