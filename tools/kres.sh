#!/bin/sh
# summarise a probe log
grep -n "Checking harness\|VERIFICATION:\|Verification Time\|timed out\|Failed Checks\|^error\|Complete -" /verif/.work/probe-$1.log | sed 's/Thread [0-9]*: //' | tail -${2:-40}
