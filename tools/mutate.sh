#!/bin/sh
# usage: tools/mutate.sh <property> <file relative to repo> <sed expression> [tier]
# Applies one seeded change to a scratch copy of the `ordinals` crate (outside /repo and /verif),
# runs the property's check against it via VERIF_REPO, prints the verdict, removes the copy.
set -e
P=$1; F=$2; E=$3; T=${4:-quick}
S=/root/scratch/repo-$$
mkdir -p $S/crates
cp /repo/Cargo.toml /repo/Cargo.lock $S/
cp -r /repo/crates/ordinals $S/crates/
cp -r /repo/src $S/src
cp $S/$F $S/$F.orig
sed -i -e "$E" $S/$F
if cmp -s $S/$F $S/$F.orig; then echo "MUTATION DID NOT APPLY"; rm -rf $S; exit 3; fi
diff $S/$F.orig $S/$F | head -8 || true
rm $S/$F.orig
set +e
VERIF_REPO=$S /verif/check $P --tier $T > /root/scratch/mut-$$.out 2> /root/scratch/mut-$$.err
rc=$?
echo "rc=$rc"; grep -E "^(VIOLATION|KNOWN)" /root/scratch/mut-$$.out; grep UNDECIDED /root/scratch/mut-$$.err | head -5
rm -rf $S /root/scratch/mut-$$.out /root/scratch/mut-$$.err
# restore the working overlays to the real tree
python3 /verif/tools/overlay.py > /dev/null
exit 0
