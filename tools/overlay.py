#!/usr/bin/env python3
"""Mechanical overlay of the real `ordinals` crate (engine E1).

Copies /repo/crates/ordinals/src byte-for-byte into a work directory and appends,
to the module files listed in MODS, one line declaring a child module whose body
lives in /verif/contracts/ordinals/ (and, for a private nested module such as runestone/flag.rs, one
`pub(crate) use` line in its parent so that the native replay registry can name it).  Nothing is dropped or rewritten: every
copied file is the real file plus (for the listed ones) a trailing
`#[cfg(any(kani, ordinals_ord_verif))] #[path = ...] mod verif_contracts;`.
The manifest is regenerated from /repo/Cargo.toml's [workspace.*] tables because
the copy lives outside the workspace.  Returns the per-file sha256 of the real
sources for the evidence.
"""
import hashlib, json, os, shutil, sys, tomllib

REPO = os.environ.get("VERIF_REPO", "/repo")
VERIF = os.path.dirname(os.path.dirname(os.path.abspath(__file__)))

# module file (relative to crates/ordinals/src) -> contract file in contracts/ordinals
MODS = {
    "lib.rs": "lib_contracts.rs",
    "varint.rs": "varint_contracts.rs",
    "sat.rs": "sat_contracts.rs",
    "epoch.rs": "epoch_contracts.rs",
    "height.rs": "height_contracts.rs",
    "rune.rs": "rune_contracts.rs",
    "spaced_rune.rs": "spaced_rune_contracts.rs",
    "rune_id.rs": "rune_id_contracts.rs",
    "runestone.rs": "runestone_contracts.rs",
    "runestone/message.rs": "message_contracts.rs",
    "runestone/tag.rs": "tag_contracts.rs",
    "runestone/flag.rs": "flag_contracts.rs",
    "edict.rs": "edict_contracts.rs",
    "etching.rs": "etching_contracts.rs",
    "rarity.rs": "rarity_contracts.rs",
    "degree.rs": "degree_contracts.rs",
    "decimal_sat.rs": "decimal_sat_contracts.rs",
    "sat_point.rs": "sat_point_contracts.rs",
    "pile.rs": "pile_contracts.rs",
    "charm.rs": "charm_contracts.rs",
}


# Variant E1S ("shimmed collections"): the same byte-for-byte copy, except that ONE import in lib.rs is
# redirected - `std::collections::{HashMap, VecDeque}` become list-based shims
# (contracts/support/hashmap_shim.rs) - because std's SipHash table does not terminate under CBMC
# (3 integers through Message::from_integers: > 300 s).  Every other file is the real file.
MODS_S = {
    "lib.rs": "lib_contracts.rs",
    "runestone.rs": "runestone_contracts.rs",
    "runestone/message.rs": "message_contracts.rs",
    "runestone/tag.rs": "tag_contracts.rs",
}
LIB_IMPORT_REAL = "    collections::{HashMap, VecDeque},\n"
LIB_IMPORT_SHIM = ""


def sha(path):
    return hashlib.sha256(open(path, "rb").read()).hexdigest()


def dep_spec(v):
    if isinstance(v, str):
        return json.dumps(v)
    parts = []
    for k, x in v.items():
        parts.append(f"{k} = {json.dumps(x)}")
    return "{ " + ", ".join(parts) + " }"


def build(dest, extra_features=None, variant="e1"):
    src = os.path.join(REPO, "crates/ordinals")
    root = tomllib.load(open(os.path.join(REPO, "Cargo.toml"), "rb"))
    crate = tomllib.load(open(os.path.join(src, "Cargo.toml"), "rb"))
    wdeps = root["workspace"]["dependencies"]
    wpkg = root["workspace"]["package"]
    os.makedirs(dest, exist_ok=True)
    dsrc = os.path.join(dest, "src")
    if os.path.isdir(dsrc):
        shutil.rmtree(dsrc)
    shutil.copytree(os.path.join(src, "src"), dsrc)
    hashes = {}
    for dp, _, fns in os.walk(os.path.join(src, "src")):
        for fn in fns:
            p = os.path.join(dp, fn)
            hashes[os.path.relpath(p, REPO)] = sha(p)
    appended = []
    cdir = "contracts/ordinals" if variant == "e1" else "contracts/ordinals_s"
    if variant == "e1s":
        lib = os.path.join(dsrc, "lib.rs")
        text = open(lib).read()
        if LIB_IMPORT_REAL not in text:
            import extract
            raise extract.AnchorLost("lib.rs: the `collections::{HashMap, VecDeque}` import line was not found")
        text = text.replace(LIB_IMPORT_REAL, LIB_IMPORT_SHIM, 1)
        text += "\n#[path = \"" + os.path.join(VERIF, "contracts/support/hashmap_shim.rs") + "\"]\nmod hashmap_shim;\nuse hashmap_shim::{HashMap, VecDeque};\n"
        open(lib, "w").write(text)
        appended.append("lib.rs (import of std::collections::{HashMap, VecDeque} redirected to contracts/support/hashmap_shim.rs)")
    for rel, contract in (MODS if variant == "e1" else MODS_S).items():
        cpath = os.path.join(VERIF, cdir, contract)
        target = os.path.join(dsrc, rel)
        if not os.path.exists(cpath) or not os.path.exists(target):
            continue
        with open(target, "a") as f:
            f.write(
                "\n#[cfg(any(kani, ordinals_ord_verif))]\n"
                f'#[path = "{cpath}"]\n'
                + ("pub " if rel == "lib.rs" else "pub(crate) ")
                + "mod verif_contracts;\n"
            )
        appended.append(rel)
        if "/" in rel:
            # the module is a private child (`mod flag;` in runestone.rs): the native replay registry
            # lives at the crate root and cannot name it, so its parent re-exports the contract module
            parent = os.path.join(dsrc, os.path.dirname(rel) + ".rs")
            child = os.path.basename(rel)[:-3]
            with open(parent, "a") as f:
                f.write(
                    "\n#[cfg(any(kani, ordinals_ord_verif))]\n"
                    f"#[allow(unused_imports)]\npub(crate) use {child}::verif_contracts as verif_contracts_{child};\n"
                )
            appended.append(os.path.dirname(rel) + ".rs (re-export of " + child + "::verif_contracts)")
    # manifest
    lines = ["[package]", 'name = "ordinals"', f'version = {json.dumps(crate["package"]["version"])}',
             f'edition = {json.dumps(wpkg["edition"])}', "", "[lib]", 'path = "src/lib.rs"', "", "[dependencies]"]
    for name, v in crate["dependencies"].items():
        if isinstance(v, dict) and v.get("workspace"):
            spec = wdeps[name]
            if isinstance(spec, str):
                spec = {"version": spec}
            spec = dict(spec)
            if name == "bitcoin":
                spec["features"] = sorted(set(spec.get("features", []) + ["rand", "serde"]))
            lines.append(f"{name} = {dep_spec(spec)}")
        else:
            lines.append(f"{name} = {dep_spec(v)}")
    lines += ["", "[lints.rust]",
              "unexpected_cfgs = { level = \"allow\" }", "", "[workspace]", ""]
    open(os.path.join(dest, "Cargo.toml"), "w").write("\n".join(lines))
    shutil.copy(os.path.join(REPO, "Cargo.lock"), os.path.join(dest, "Cargo.lock"))
    os.makedirs(os.path.join(dest, ".cargo"), exist_ok=True)
    open(os.path.join(dest, ".cargo/config.toml"), "w").write("[net]\noffline = true\n")
    return {"real_files": hashes, "appended_mod_line_to": appended}


if __name__ == "__main__":
    out = build(sys.argv[1] if len(sys.argv) > 1 else os.path.join(VERIF, ".work/e1"))
    json.dump(out, sys.stdout, indent=1)
