#!/usr/bin/env python3
"""Mechanical overlay of real `ord`-crate source files (engine E2).

The `ord` library as a whole cannot be symbolically executed (redb, tokio, axum, RPC).  This tool
builds, on every run, a small crate whose modules are the REAL files of /repo/src, copied
byte-for-byte to the same relative path, under a substitute crate root:

  * FILES      real files copied unchanged; for those listed in CONTRACTS one line is appended
               (`mod verif_contracts;` pointing into /verif/contracts/ord/), exactly as E1 does
  * SHIMS      files of /verif/contracts/ord/shim/ that stand in for the parents of those modules
               (`lib.rs`, `index.rs`, `inscriptions.rs`, ...): they supply the names ord's own
               `use super::*` prelude would, and the handful of types the real files mention but
               whose real definition cannot exist under a verifier (struct Index -> three flags).
               A shim may contain `//@extract <file> :: <selector> :: <selector>` lines, replaced by
               the exact text of that item of /repo (tools/extract.py, lexer-aware brace matching);
               what is dropped is the rest of the enclosing file.

Every copied / extracted text is recorded with its sha256 for the evidence.  If an anchor is lost
the caller reports UNDECIDED, never a violation.
"""
import hashlib, json, os, re, shutil, sys, tomllib

REPO = os.environ.get("VERIF_REPO", "/repo")
VERIF = os.path.dirname(os.path.dirname(os.path.abspath(__file__)))
sys.path.insert(0, os.path.join(VERIF, "tools"))
import extract  # noqa: E402

# real files (relative to /repo/src) copied verbatim
FILES = [
    "decimal.rs",
    "runes.rs",
    "fee_rate.rs",
    "into_usize.rs",
    "into_u64.rs",
    "index/entry.rs",
    "index/lot.rs",
    "index/utxo_entry.rs",
    "index/event.rs",
    "inscriptions/inscription_id.rs",
    "inscriptions/tag.rs",
]

# real file -> contract file (child module appended to the copy)
CONTRACTS = {
    "decimal.rs": "decimal_contracts.rs",
    "fee_rate.rs": "fee_rate_contracts.rs",
    "index/entry.rs": "entry_contracts.rs",
    "index/lot.rs": "lot_contracts.rs",
    "index/utxo_entry.rs": "utxo_entry_contracts.rs",
    "inscriptions/inscription_id.rs": "inscription_id_contracts.rs",
    "inscriptions/tag.rs": "tag_contracts.rs",
}

# shim (in contracts/ord/shim) -> destination relative to src/ ; a shim may carry its own contracts
SHIMS = {
    "lib.rs": "lib.rs",
    "index.rs": "index.rs",
    "inscriptions.rs": "inscriptions.rs",
    "env.rs": "env.rs",
    "updater.rs": "index/updater.rs",
    "settings.rs": "settings.rs",
}

# contracts attached to a shim module itself (declared inside the shim)
SHIM_CONTRACTS = {
    "index.rs": "index_contracts.rs",
    "inscriptions/inscription.rs": "inscription_contracts.rs",
    "index/updater/rune_updater.rs": "rune_updater_contracts.rs",
    "settings.rs": "settings_contracts.rs",
    "index/updater/inscription_updater.rs": "inscription_updater_contracts.rs",
    "index/updater.rs": "updater_contracts.rs",
}

DEPS = ["anyhow", "bitcoin", "derive_more", "redb", "ref-cast", "serde", "serde_with", "serde_json", "regex", "hex"]


def sha(b):
    return hashlib.sha256(b if isinstance(b, bytes) else b.encode()).hexdigest()


def dep_spec(v):
    if isinstance(v, str):
        return json.dumps(v)
    return "{ " + ", ".join(f"{k} = {json.dumps(x)}" for k, x in v.items()) + " }"


HELPER_ATTRS = {"value", "serde", "arg", "command", "clap"}


def strip_helper_attrs(text):
    """remove `#[value(..)]`, `#[serde(..)]`, `#[arg(..)]`, `#[command(..)]`, `#[clap(..)]` attribute groups (balanced, possibly
    multi-line) from an item's text; returns (new text, list of removed attribute heads)"""
    toks = list(extract.tokenize(text))
    cuts, removed = [], []
    i = 0
    while i < len(toks):
        k, t, p = toks[i]
        if k == "punct" and t == "#":
            j = i + 1
            while j < len(toks) and toks[j][0] in ("ws", "comment"):
                j += 1
            if j < len(toks) and toks[j][1] == "[":
                n = j + 1
                while n < len(toks) and toks[n][0] in ("ws", "comment"):
                    n += 1
                if n < len(toks) and toks[n][0] == "ident" and toks[n][1] in HELPER_ATTRS:
                    depth, m = 0, j
                    while m < len(toks):
                        if toks[m][0] == "punct" and toks[m][1] == "[":
                            depth += 1
                        elif toks[m][0] == "punct" and toks[m][1] == "]":
                            depth -= 1
                            if depth == 0:
                                break
                        m += 1
                    end = toks[m][2] + 1
                    # swallow the rest of the line if it is blank
                    e2 = end
                    while e2 < len(text) and text[e2] in " \t":
                        e2 += 1
                    if e2 < len(text) and text[e2] == "\n":
                        end = e2 + 1
                        # and the indentation before the attribute
                        st = p
                        while st > 0 and text[st - 1] in " \t":
                            st -= 1
                        p = st
                    cuts.append((p, end))
                    removed.append("#[" + toks[n][1] + "(..)]")
                    i = m
        i += 1
    for a, b in sorted(cuts, reverse=True):
        text = text[:a] + text[b:]
    return text, removed


def expand_extracts(text, manifest):
    out = []
    for line in text.split("\n"):
        m = re.match(r"^(\s*)//@extract(!?)\s+(\S+)\s*::\s*(.*)$", line)
        if not m:
            out.append(line)
            continue
        filtered = m.group(2) == "!"
        m = re.match(r"^(\s*)//@extract!?\s+(\S+)\s*::\s*(.*)$", line)
        rel, sels = m.group(2), [s.strip() for s in m.group(3).split("::")]
        path = os.path.join(REPO, rel)
        src = open(path).read()
        it = extract.find_item(src, sels)
        first = src.count("\n", 0, it.start) + 1
        last = src.count("\n", 0, it.end) + 1
        text, dropped = it.text, "the rest of " + rel
        if filtered:
            # `//@extract!`: derives of non-std traits and helper attributes of other crates are removed
            # (serde / clap derive output is not code under contract); everything else is verbatim
            attrs, rest = extract.split_attrs(it)
            kept, drop = extract.filter_attrs(attrs)
            rest, inner = strip_helper_attrs(rest)
            text = "\n".join(kept) + ("\n" if kept else "") + rest
            dropped += "; attributes removed: " + ", ".join(drop) + (f"; {len(inner)} helper attributes of serde/clap removed" if inner else "")
        manifest.append({"file": rel, "item": " :: ".join(sels), "first_line": first, "last_line": last,
                         "sha256": sha(it.text), "dropped": dropped})
        out.append(f"{m.group(1)}// ---- extracted {'(attributes filtered) ' if filtered else 'verbatim '}from {rel}:{first}-{last} ({' :: '.join(sels)})")
        out.append(m.group(1) + text)
        out.append(f"{m.group(1)}// ---- end of extract")
    return "\n".join(out)


def build(dest):
    root = tomllib.load(open(os.path.join(REPO, "Cargo.toml"), "rb"))
    wdeps = root["workspace"]["dependencies"]
    deps = root["dependencies"]
    os.makedirs(dest, exist_ok=True)
    dsrc = os.path.join(dest, "src")
    if os.path.isdir(dsrc):
        shutil.rmtree(dsrc)
    os.makedirs(dsrc)
    hashes, appended, extracted = {}, [], []
    for rel in FILES:
        p = os.path.join(REPO, "src", rel)
        if not os.path.exists(p):
            raise extract.AnchorLost(f"real file missing: src/{rel}")
        data = open(p, "rb").read()
        hashes["src/" + rel] = sha(data)
        t = os.path.join(dsrc, rel)
        os.makedirs(os.path.dirname(t), exist_ok=True)
        open(t, "wb").write(data)
        c = CONTRACTS.get(rel)
        cpath = os.path.join(VERIF, "contracts/ord", c) if c else None
        if cpath and os.path.exists(cpath):
            with open(t, "a") as f:
                f.write("\n#[cfg(any(kani, ordinals_ord_verif))]\n"
                        f'#[path = "{cpath}"]\npub(crate) mod verif_contracts;\n')
            appended.append("src/" + rel)
    for shim, rel in SHIMS.items():
        text = open(os.path.join(VERIF, "contracts/ord/shim", shim)).read()
        text = expand_extracts(text, extracted)
        t = os.path.join(dsrc, rel)
        os.makedirs(os.path.dirname(t), exist_ok=True)
        open(t, "w").write(text)
    lines = ["[package]", 'name = "ordv"', 'version = "0.0.0"', f'edition = {json.dumps(root["workspace"]["package"]["edition"])}',
             "", "[lib]", 'path = "src/lib.rs"', "", "[dependencies]",
             f'ordinals = {{ path = "{os.path.join(REPO, "crates/ordinals")}" }}']
    for name in DEPS:
        v = deps.get(name)
        if v is None:
            continue
        if isinstance(v, dict) and v.get("workspace"):
            v = wdeps[name]
        if isinstance(v, str):
            v = {"version": v}
        v = dict(v)
        if name == "bitcoin":
            v["features"] = sorted(set(v.get("features", []) + ["rand", "serde"]))
        lines.append(f"{name} = {dep_spec(v)}")
    lines += ["", "[lints.rust]", 'unexpected_cfgs = { level = "allow" }', "", "[workspace]", ""]
    open(os.path.join(dest, "Cargo.toml"), "w").write("\n".join(lines))
    shutil.copy(os.path.join(REPO, "Cargo.lock"), os.path.join(dest, "Cargo.lock"))
    os.makedirs(os.path.join(dest, ".cargo"), exist_ok=True)
    open(os.path.join(dest, ".cargo/config.toml"), "w").write("[net]\noffline = true\n")
    return {"real_files": hashes, "appended_mod_line_to": appended, "extracted_items": extracted,
            "shims": sorted(SHIMS)}


if __name__ == "__main__":
    json.dump(build(sys.argv[1] if len(sys.argv) > 1 else os.path.join(VERIF, ".work/e2")), sys.stdout, indent=1)
