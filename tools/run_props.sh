#!/bin/sh
# usage: tools/run_props.sh [--tier thorough] <prop>...   runs the registered check of each property in turn, logs rc and wall time
tier=quick
if [ "$1" = "--tier" ]; then tier=$2; shift 2; fi
cd /verif
for p in "$@"; do
  t0=$(date +%s)
  ./check $p --tier $tier > .work/run-$p.out 2> .work/run-$p.err; rc=$?
  t1=$(date +%s)
  echo "$p tier=$tier rc=$rc wall=$((t1-t0))s violations=$(grep -c '^VIOLATION' .work/run-$p.out) $(grep -c UNDECIDED .work/run-$p.err) undecided" >> .work/run-props.log
done
