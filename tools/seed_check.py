#!/usr/bin/env python3
"""Run the registered quick (or thorough) check of a property against a seeded change.

usage: seed_check.py <seed_id> [<property> ...] [--tier thorough] [--in-place]
--in-place: the patch is applied to /repo ITSELF (git -C /repo apply), the check runs with no VERIF_REPO, and the patch is
reverted straight afterwards (git -C /repo checkout -- .) - the protocol of the brief; needed for engine E2, whose
verdicts depend on the path of the tree (DESIGN 0.6).  Only when no other check is running.
The patch /verif/seeded/<seed_id>/patch.diff is applied to a scratch git worktree of /repo (/tmp/sc,
never /repo itself) and the check is pointed at it through VERIF_REPO; the verdict (exit code,
VIOLATION lines, failed obligations) is appended to seeded/<seed_id>/meta.json under "checks".
"""
import json, os, re, subprocess, sys, time

VERIF = os.path.dirname(os.path.dirname(os.path.abspath(__file__)))
SC = "/tmp/sc"


def sh(cmd, **kw):
    return subprocess.run(cmd, shell=True, stdout=subprocess.PIPE, stderr=subprocess.STDOUT, text=True, errors="replace", **kw)


def main():
    a = sys.argv[1:]
    tier = "quick"
    if "--tier" in a:
        tier = a[a.index("--tier") + 1]
        a = a[:a.index("--tier")] + a[a.index("--tier") + 2:]
    in_place = "--in-place" in a
    a = [x for x in a if x != "--in-place"]
    sid, props = a[0], a[1:]
    global SC
    if in_place:
        SC = "/repo"
    sdir = os.path.join(VERIF, "seeded", sid)
    meta = json.load(open(os.path.join(sdir, "meta.json")))
    props = props or [meta["property"]]
    if in_place:
        if sh("git -C /repo status --porcelain --untracked-files=no").stdout.strip():
            print("/repo is not clean; refusing to apply a seed in place")
            return 2
    else:
        if not os.path.isdir(SC):
            sh(f"git -C /repo worktree add -f --detach {SC} HEAD")
        sh(f"git -C {SC} checkout -- . && git -C {SC} clean -fdq")
        head = sh("git -C /repo rev-parse HEAD").stdout.strip()
        sh(f"git -C {SC} checkout -q --detach {head}")   # the seed is applied on top of /repo's current HEAD (fix: commits included)
    r = sh(f"git -C {SC} apply {sdir}/patch.diff")
    if r.returncode != 0:
        print("patch does not apply:", r.stdout)
        return 2
    # a patch that touches only crates/ordinals cannot change what the E2 harnesses (real `ord` files, varint under
    # contract) see, and a patch that touches only src/ cannot change E1/E1S/EV: run the engines that can be affected
    touched = re.findall(r"^\+\+\+ b/(\S+)", open(f"{sdir}/patch.diff").read(), re.M)
    only = None
    if touched and all(t.startswith("crates/ordinals/") for t in touched):
        only = "e1,e1s,ev"
    elif touched and all(t.startswith("src/") for t in touched):
        only = "e2,ev"
    try:
        for prop in props:
            t0 = time.time()
            env = dict(os.environ, VERIF_TIER=tier)
            if in_place:
                env["VERIF_EVIDENCE_SCRATCH"] = "1"   # do not overwrite the committed evidence with a run on a patched tree
            else:
                env["VERIF_REPO"] = SC
            if only:
                env["VERIF_ONLY_ENGINE"] = only
            cmd = f"./check {prop}"
            if tier == "thorough":
                cmd += " --tier thorough"
            r = subprocess.run(cmd, shell=True, cwd=VERIF, env=env, stdout=subprocess.PIPE, stderr=subprocess.PIPE, text=True, errors="replace")
            viol = [l for l in r.stdout.splitlines() if l.startswith("VIOLATION")]
            obs = []
            for v in viol:
                rp = v.split("replay=")[1].split()[0]
                try:
                    rec = json.load(open(rp))
                    nat = rec.get("native_replay", {})
                    obs.append({"obligation": rec["obligation"], "harness": rec["harness"],
                                "replayed_natively": bool(nat.get("reproduced")),
                                "no_failing_input_found": v.rstrip().endswith("no-failing-input-found")})
                except Exception as e:  # noqa: BLE001
                    obs.append({"line": v, "error": repr(e)})
            und = [l for l in r.stderr.splitlines() if l.startswith("UNDECIDED")]
            meta.setdefault("checks", {})[f"{prop}:{tier}"] = {
                "cmd": (f"git -C /repo apply patch.diff; {cmd}; git -C /repo checkout -- ." if in_place else f"VERIF_REPO=<scratch worktree with patch.diff applied> {cmd}") + (f"   (engines {only}: the patch touches only {'crates/ordinals' if only != 'e2' else 'src/'})" if only else ""), "exit_code": r.returncode,
                "detected": r.returncode == 1 and bool(viol), "violations": obs, "undecided": und[:6], "wall_s": round(time.time() - t0, 1)}
            print(sid, prop, tier, "rc=%d" % r.returncode, "DETECTED" if r.returncode == 1 and viol else "missed", [o.get("obligation", "")[:90] for o in obs][:4], und[:2])
    finally:
        sh(f"git -C {SC} checkout -- ." + ("" if in_place else f" && git -C {SC} clean -fdq"))
        json.dump(meta, open(os.path.join(sdir, "meta.json"), "w"), indent=1)
    return 0


if __name__ == "__main__":
    sys.exit(main())
