#!/bin/sh
# usage: seed_queue.sh <prop> <agent-worktree>    verifies every seed under <agent-worktree>/_seed sequentially (background)
prop=$1; wt=$2; phase=${3:-unit}
for d in $wt/_seed/*/; do
  sid=$(basename $d)
  flock /tmp/sv.lock python3 /verif/tools/seed_verify.py $d $sid $prop --phase $phase >> /verif/.work/seedverify/queue.log 2>&1
done
