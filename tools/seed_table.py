#!/usr/bin/env python3
"""Regenerates the table of sub-agent seeded changes in DESIGN.md (between the SEED-TABLE markers)
from seeded/*/meta.json."""
import glob, json, os, re
VERIF = os.path.dirname(os.path.dirname(os.path.abspath(__file__)))
rows = []
for mp in sorted(glob.glob(os.path.join(VERIF, "seeded", "*", "meta.json"))):
    m = json.load(open(mp))
    sid = m["seed"]
    what = m.get("summary", "")
    conf = "yes" if m.get("confirmed") else "NO"
    integ = {True: "yes", False: "NO", None: "not re-run"}[m.get("integration_suite_passes_with_patch")]
    verdicts = []
    for k, c in sorted(m.get("checks", {}).items()):
        if c.get("detected"):
            obs = sorted({(o.get("obligation") or "")[:70] for o in c.get("violations", [])})
            nat = any(o.get("replayed_natively") for o in c.get("violations", []))
            verdicts.append(f"**caught** by `./check {k.split(':')[0]}` ({k.split(':')[1]}): `{obs[0] if obs else ''}`" + (" - replayed natively" if nat else " - no-failing-input-found"))
        elif c.get("path_artefacts_dropped") and not c.get("violations"):
            verdicts.append(f"missed by `./check {k.split(':')[0]}` ({k.split(':')[1]}) - the run on the scratch path reported only path-dependent artefacts of six E2 harnesses, which fail there on the unmodified tree too (§0.6)")
        elif c.get("exit_code") == 0:
            verdicts.append(f"missed by `./check {k.split(':')[0]}` ({k.split(':')[1]})")
        else:
            verdicts.append(f"missed: the check answered undecided (`./check {k.split(':')[0]}`, exit {c.get('exit_code')})")
    rows.append(f"| {sid} | {m.get('property')} | {what} | {conf} / {integ} | {'; '.join(verdicts) or 'not run yet'} |")
table = "| Seed | Property | Change (needs ... to manifest) | Confirmed by me: units+demo / integration | Verdict of the registered check |\n|---|---|---|---|---|\n" + "\n".join(rows)
p = os.path.join(VERIF, "DESIGN.md")
s = open(p).read()
s = re.sub(r"<!-- SEED-TABLE -->.*?<!-- /SEED-TABLE -->|<!-- SEED-TABLE -->", "<!-- SEED-TABLE -->\n" + table + "\n<!-- /SEED-TABLE -->", s, count=1, flags=re.S)
open(p, "w").write(s)
print(len(rows), "seeds")
