#!/usr/bin/env python3
"""Independent confirmation of a seeded change produced by a sub-agent, in the scratch worktree /tmp/sv
(a git worktree of /repo, never /repo itself):

  1. the patch applies on the untouched tree, the workspace builds and the EXISTING test suite passes
     (cargo test --offline --workspace --no-fail-fast, RUST_BACKTRACE unset; compared with the
     untouched-tree run recorded in .work/seedverify/baseline.log: same set of passing counts);
  2. with the demonstration added, the demonstration FAILS;
  3. with the patch reverted (demonstration kept), the demonstration PASSES.

usage: seed_verify.py <agent_seed_dir> <seed_id> <property> [--demo-cmd CMD] [--phase unit|integration|all]
phase unit: existing UNIT tests (ordinals + ord lib: 936 tests) with the patch, demo fails with / passes without.
phase integration: the integration suite (tests/lib.rs, 342 tests) with the patch - run separately when the
machine is quiet, because those tests spawn servers with wall-clock waits and time out under load.
Writes /verif/seeded/<seed_id>/{patch.diff, demo.diff, README.md, meta.json}; meta.confirmed says
whether all three steps held.  The worktree is restored afterwards.
"""
import json, os, re, shutil, subprocess, sys, time

WT = "/tmp/sv"
VERIF = os.path.dirname(os.path.dirname(os.path.abspath(__file__)))
ENV = dict(os.environ, CARGO_NET_OFFLINE="true")
ENV.pop("RUST_BACKTRACE", None)


def sh(cmd, timeout=3600):
    t0 = time.time()
    p = subprocess.run(cmd, shell=True, cwd=WT, env=ENV, stdout=subprocess.PIPE, stderr=subprocess.STDOUT, text=True,
                       errors="replace", timeout=timeout)
    return p.returncode, p.stdout, round(time.time() - t0, 1)


def clean():
    sh("git checkout -- . && git clean -fdq -e target -e _seed")


def suite_counts(out):
    return [(int(a), int(b)) for a, b in re.findall(r"test result: \w+\. (\d+) passed; (\d+) failed", out)]


def guess_demo_cmd(demo):
    files = re.findall(r"^\+\+\+ b/(\S+)", demo, re.M)
    for f in files:
        m = re.match(r"crates/ordinals/tests/(\w+)\.rs$", f)
        if m:
            return f"cargo test --offline -p ordinals --test {m.group(1)}"
        m = re.match(r"tests/(\w+)\.rs$", f)
        if m and m.group(1) != "lib":
            return f"cargo test --offline --test {m.group(1)}"
        m = re.match(r"examples/(\w+)\.rs$", f)
        if m:
            return f"cargo run --offline --example {m.group(1)}"
        m = re.match(r"crates/ordinals/examples/(\w+)\.rs$", f)
        if m:
            return f"cargo run --offline -p ordinals --example {m.group(1)}"
    # tests added inside existing source files: run them by name
    names, where = [], set()
    cur = None
    lines = demo.splitlines()
    for i, l in enumerate(lines):
        m = re.match(r"^\+\+\+ b/(\S+)", l)
        if m:
            cur = m.group(1)
        m = re.match(r"^\+\s*(?:pub )?fn ([a-z0-9_]+)\s*\(\s*\)", l)
        if m and cur and any("#[test]" in x for x in lines[max(0, i - 4):i]):
            names.append(m.group(1))
            where.add("ordinals" if cur.startswith("crates/ordinals/") else "ord")
    if names:
        cmds = []
        if "ord" in where:
            cmds.append("cargo test --offline --lib -- " + " ".join(names))
        if "ordinals" in where:
            cmds.append("cargo test --offline -p ordinals --lib -- " + " ".join(names))
        return " && ".join(cmds) if len(cmds) == 1 else "( " + " ; ".join(c + " || exit 1" for c in cmds) + " )"
    return None


def main():
    src, sid, prop = sys.argv[1:4]
    if not os.path.isdir(WT):
        # the scratch worktree is removed at the end of a session; recreate it on demand (outside /repo and /verif)
        subprocess.run(f"git -C /repo worktree add -f --detach {WT} HEAD", shell=True, stdout=subprocess.DEVNULL, stderr=subprocess.DEVNULL)
    demo_cmd = None
    phase = "unit"
    if "--phase" in sys.argv:
        phase = sys.argv[sys.argv.index("--phase") + 1]
    if "--demo-cmd" in sys.argv:
        demo_cmd = sys.argv[sys.argv.index("--demo-cmd") + 1]
    patch = open(os.path.join(src, "patch.diff")).read()
    demo = open(os.path.join(src, "demo.diff")).read()
    demo_cmd = demo_cmd or guess_demo_cmd(demo)
    meta = {"seed": sid, "property": prop, "ran": [], "confirmed": False}
    out_dir = os.path.join(VERIF, "seeded", sid)
    os.makedirs(out_dir, exist_ok=True)
    for f in ("patch.diff", "demo.diff", "README.md"):
        if os.path.exists(os.path.join(src, f)) and os.path.realpath(src) != os.path.realpath(out_dir):
            shutil.copy(os.path.join(src, f), os.path.join(out_dir, f))
    shutil.copy(os.path.join(src, "patch.diff"), "/tmp/sv-patch.diff")
    shutil.copy(os.path.join(src, "demo.diff"), "/tmp/sv-demo.diff")
    try:
        clean()
        rc, out, t = sh("git apply /tmp/sv-patch.diff")
        meta["ran"].append({"cmd": "git apply patch.diff", "rc": rc})
        if rc != 0:
            meta["error"] = "patch does not apply: " + out[-500:]
            return meta
        if phase in ("integration", "all"):
            rc, out, t = sh("timeout 2400 cargo test --offline --test integration --no-fail-fast -- --test-threads=4 2>&1", timeout=3000)
            counts = suite_counts(out)
            passed, failed = sum(a for a, _ in counts), sum(b for _, b in counts)
            failing = sorted(set(re.findall(r"^test (\S+) \.\.\. FAILED", out, re.M)))
            meta["ran"].append({"cmd": "cargo test --offline --test integration --no-fail-fast -- --test-threads=4 (patch applied, RUST_BACKTRACE unset)", "rc": rc,
                                "passed": passed, "failed": failed, "failing_tests": failing[:20], "wall_s": t})
            flaky = {"wallet::resume::resume_suspended"}  # sleeps 1 s then sends SIGINT: fails under load on the untouched tree too
            meta["integration_suite_passes_with_patch"] = (set(failing) <= flaky and passed + len(failing) >= 342)
            meta["integration_known_flaky_failed"] = sorted(set(failing) & flaky)
            if phase == "integration":
                meta.pop("confirmed", None)
                return meta
        rc, out, t = sh("cargo test --offline -p ordinals --lib --no-fail-fast 2>&1; cargo test --offline --lib --no-fail-fast 2>&1", timeout=5400)
        counts = suite_counts(out)
        passed, failed = sum(a for a, _ in counts), sum(b for _, b in counts)
        failing = sorted(set(re.findall(r"^test (\S+) \.\.\. FAILED", out, re.M)))
        meta["ran"].append({"cmd": "cargo test --offline -p ordinals --lib; cargo test --offline --lib (patch applied, RUST_BACKTRACE unset)", "rc": rc,
                            "passed": passed, "failed": failed, "failing_tests": failing[:20], "wall_s": t})
        meta["existing_suite_passes_with_patch"] = (failed == 0 and passed >= 936)
        if not demo_cmd:
            meta["error"] = "no demo command could be derived"
            return meta
        rc, out, t = sh("git apply /tmp/sv-demo.diff")
        if rc != 0:
            meta["error"] = "demo does not apply on top of patch: " + out[-500:]
            return meta
        rc1, out1, t1 = sh(demo_cmd + " 2>&1", timeout=3600)
        meta["ran"].append({"cmd": demo_cmd + "   (patch + demo)", "rc": rc1, "wall_s": t1, "tail": out1[-1500:]})
        rc, out, t = sh("git apply -R /tmp/sv-patch.diff")
        if rc != 0:
            meta["error"] = "could not revert patch under demo: " + out[-500:]
            return meta
        rc2, out2, t2 = sh(demo_cmd + " 2>&1", timeout=3600)
        meta["ran"].append({"cmd": demo_cmd + "   (demo only, untouched source)", "rc": rc2, "wall_s": t2, "tail": out2[-600:]})
        meta["demo_fails_with_patch"] = rc1 != 0 and ("panicked" in out1 or "FAILED" in out1 or "failed" in out1)
        meta["demo_passes_without_patch"] = rc2 == 0 and (sum(a for a, _ in suite_counts(out2)) >= 1 or "test result" not in out2)
        meta["confirmed"] = bool(meta.get("existing_suite_passes_with_patch") and meta["demo_fails_with_patch"] and meta["demo_passes_without_patch"])
        return meta
    finally:
        clean()
        prev = {}
        mp = os.path.join(out_dir, "meta.json")
        if os.path.exists(mp):
            try:
                prev = json.load(open(mp))
            except ValueError:
                prev = {}
        ran_prev = prev.get("ran", [])
        prev.update(meta)
        if phase == "integration":
            prev["ran"] = ran_prev + meta["ran"]
        json.dump(prev, open(mp, "w"), indent=1)
        print(sid, phase, "confirmed" if prev.get("confirmed") else "NOT CONFIRMED", "integration=%s" % prev.get("integration_suite_passes_with_patch"), meta.get("error", ""))


if __name__ == "__main__":
    main()
