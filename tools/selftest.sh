#!/bin/sh
# Runs what the grader runs: setup, then every claimed quick command with its evidence file removed
# first; prints rc / time per check and validates manifest + evidence at the end.
cd /verif
export CARGO_NET_OFFLINE=true GOPROXY=off PIP_NO_INDEX=1 VERIF_SEED=${VERIF_SEED:-1} VERIF_TIER=${VERIF_TIER:-quick}
sh -c "$(jq -r .setup_cmd MANIFEST.json)" || { echo "setup failed"; exit 1; }
fail=0
for id in $(jq -r '.checks[].property_id' MANIFEST.json); do
  [ -n "$1" ] && [ "$1" != "$id" ] && continue
  cmd=$(jq -r --arg id "$id" '.checks[]|select(.property_id==$id)|.'${VERIF_TIER}'_cmd' MANIFEST.json)
  rm -f evidence/$id.json
  t0=$(date +%s)
  sh -c "$cmd" > .work/selftest-$id.out 2> .work/selftest-$id.err; rc=$?
  t1=$(date +%s)
  v=$(grep -c '^VIOLATION' .work/selftest-$id.out)
  k=$(grep -c '^KNOWN-FINDING' .work/selftest-$id.out)
  e=no; [ -s evidence/$id.json ] && e=yes
  echo "$id rc=$rc violations=$v known=$k evidence=$e wall=$((t1-t0))s"
  [ $rc -ne 0 ] || [ $v -ne 0 ] || [ $e = no ] && fail=1
done
/opt/veriftools/pyvenv/bin/python tools/validate.py || fail=1
exit $fail
