#!/opt/veriftools/pyvenv/bin/python
"""Self-check of the interface files: MANIFEST.json and every evidence file validate against the
schemas, every claimed check has an evidence file whose property_id / level agree with the manifest,
a proof-level record has discharged == obligations, and MANIFEST.json is what gen_manifest.py would
write now (so an edit of a harness's metadata cannot silently change the level)."""
import json, jsonschema, glob, os, sys
V = os.path.dirname(os.path.dirname(os.path.abspath(__file__)))
sys.path.insert(0, os.path.join(V, "driver"))
import main  # noqa: E402
bad = []
man = json.load(open(os.path.join(V, 'MANIFEST.json')))
jsonschema.validate(man, json.load(open('/root/.vp/MANIFEST.schema.json')))
s = json.load(open('/root/.vp/EVIDENCE.schema.json'))
allh = main.discover()
props = [json.loads(l)["id"] for l in open(os.path.join(V, "properties.jsonl"))]
claimed = [c["property_id"] for c in man["checks"]]
na = [n["property_id"] for n in man.get("not_applicable", [])]
if sorted(claimed + na) != sorted(props):
    bad.append("claimed + not_applicable is not exactly the property list")
for c in man["checks"]:
    p = c["property_id"]
    cat = c["level_claimed"]["category"]
    if cat != main.claimed_category(allh, p):
        bad.append(f"{p}: MANIFEST category {cat} but the harness metadata gives {main.claimed_category(allh, p)} (re-run tools/gen_manifest.py)")
    f = os.path.join(V, c["evidence_file"])
    if not os.path.exists(f):
        bad.append(f"{p}: no evidence file")
        continue
    ev = json.load(open(f))
    try:
        jsonschema.validate(ev, s)
    except jsonschema.ValidationError as e:
        bad.append(f"{p}: evidence invalid: {e.message}")
    if ev["property_id"] != p:
        bad.append(f"{p}: evidence property_id {ev['property_id']}")
    if ev["level"] != cat:
        bad.append(f"{p}: evidence level {ev['level']} != MANIFEST category {cat}")
    cov = ev["coverage"]
    if ev["level"] == "proof" and cov.get("obligations") != cov.get("discharged"):
        bad.append(f"{p}: proof-level record with discharged != obligations")
    if cov.get("distinct_nontrivial", 0) < 2 or not cov.get("samples"):
        bad.append(f"{p}: thin coverage record")
for b in bad:
    print("INVALID:", b)
print('manifest and', len(claimed), 'evidence files checked:', 'OK' if not bad else 'PROBLEMS')
sys.exit(1 if bad else 0)
