#!/usr/bin/env python3
"""Assembles a single-file Verus unit from a template and the REAL source text of /repo.

Template directives (everything else in the template is ghost code written for the proof: spec
functions, lemmas, spec-trait impls, constants' mirrors):

  //@item <path relative to /repo> :: <selector> [:: <selector>]
  //@| <contract line>          (fn items only; inserted between signature and body)
  //@include <file>             lines of a file next to the template (shared prelude)
  //@standin| old => new        an expression built from std iterator adapters Verus has no specification for is
                                replaced by a call to a stand-in declared in the template whose contract states the
                                adapters' documented behaviour (an ASSUMED contract on std, listed in the evidence);
                                `old` is matched token by token (white space ignored) and must occur exactly once
  //@loop N| / //@loopbody N| / //@loopbefore N|   ghost loop specifications for the N-th loop of the body
  //@closure| old => new        a closure gets a contract (its expression must reappear unchanged)
  //@fordesugar N| it           the N-th loop, a `for PAT in EXPR { BODY }`, is replaced by the expansion the Rust
                                reference defines for it: `let mut it = (EXPR).into_iter(); loop { let Some(PAT) =
                                it.next() else { break; }; BODY }` (Verus's own `for` support has no `continue`)
  //@inline_unwrap_or_else| x   `x.unwrap_or_else(|| { B })` is replaced by std's definition of Option::unwrap_or_else,
                                `match x { Some(v) => v, None => { B } }` (Verus closures cannot capture `&mut`)

For a fn item the output is: kept attributes, the signature with the result named
(`-> T` becomes `-> (r: T)`; Verus needs the name), the contract lines, and the body -- byte for
byte.  For struct items the derive list is filtered to std derives (serde/derive_more derives and
#[serde] attributes cannot exist in a single-file Verus unit); everything else is verbatim.
Returns (text, linemap, manifest).
"""
import hashlib, os, re, sys
sys.path.insert(0, os.path.dirname(os.path.abspath(__file__)))
import extract

REPO = os.environ.get("VERIF_REPO", "/repo")


def assemble(template_path):
    out, linemap, manifest = [], [], []
    lines = expand_includes(template_path)
    i = 0
    cache = {}
    while i < len(lines):
        line = lines[i]
        lx = re.match(r"^(\s*)//@letexpr\s+(\S+)\s*::\s*(.*)$", line)
        if lx:
            # the initializer expression of `let <var> = EXPR;` inside a function of /repo, verbatim; the template
            # supplies the function that surrounds it (the rest of the enclosing function is NOT in the unit)
            indent, rel, sel = lx.group(1), lx.group(2), [x.strip() for x in lx.group(3).split("::")]
            var, sel = sel[-1], sel[:-1]
            path = os.path.join(REPO, rel)
            if not os.path.exists(path):
                raise extract.AnchorLost(f"file missing: {rel}")
            src = cache.setdefault(path, open(path).read())
            it = extract.find_item(src, sel)
            attrs, sig, body = extract.fn_parts(it)
            expr, first = let_initializer(body, var)
            body_first_line = src.count("\n", 0, it.body_start) + 1
            for k, bl in enumerate(expr.split("\n")):
                out.append(bl if k else indent + bl)
                linemap.append((len(out), ("repo-body", rel, body_first_line + first + k, sel[-1])))
            manifest.append({"file": rel, "item": " :: ".join(sel) + " :: let " + var, "first_line": body_first_line + first,
                             "last_line": body_first_line + first + expr.count("\n"), "sha256": hashlib.sha256(expr.encode()).hexdigest(),
                             "dropped": ["everything of the enclosing function except this initializer expression"], "changed": []})
            i += 1
            continue
        ex = re.match(r"^(\s*)//@exprat\s+(\S+)\s*::\s*(.*?)\s*::\s*`(.*)`\s*$", line)
        if ex:
            # the braced expression that starts at the unique occurrence of an anchor token sequence ending in `{`
            # (e.g. a struct literal `Origin::New {`), verbatim up to the matching `}`
            indent, rel, sel, anchor = ex.group(1), ex.group(2), [x.strip() for x in ex.group(3).split("::")], ex.group(4)
            path = os.path.join(REPO, rel)
            if not os.path.exists(path):
                raise extract.AnchorLost(f"file missing: {rel}")
            src = cache.setdefault(path, open(path).read())
            it = extract.find_item(src, sel)
            attrs, sig, body = extract.fn_parts(it)
            expr, first = braced_expr_at(body, anchor)
            body_first_line = src.count("\n", 0, it.body_start) + 1
            for k, bl in enumerate(expr.split("\n")):
                out.append(bl if k else indent + bl)
                linemap.append((len(out), ("repo-body", rel, body_first_line + first + k, sel[-1])))
            manifest.append({"file": rel, "item": " :: ".join(sel) + " :: expression `" + anchor + " .. }`", "first_line": body_first_line + first,
                             "last_line": body_first_line + first + expr.count("\n"), "sha256": hashlib.sha256(expr.encode()).hexdigest(),
                             "dropped": ["everything of the enclosing function except this expression"], "changed": []})
            i += 1
            continue
        m = re.match(r"^(\s*)//@item(?:\[([a-z_,]+)\])?\s+(\S+)\s*::\s*(.*)$", line)
        if not m:
            linemap.append((len(out) + 1, ("template", i + 1)))
            out.append(line)
            i += 1
            continue
        indent, flags, rel, sel = m.group(1), (m.group(2) or "").split(","), m.group(3), [s.strip() for s in m.group(4).split("::")]
        contract = []
        loopspecs = {}
        i += 1
        rewrites = []
        desugars, inlines, standins = [], [], []
        while i < len(lines) and re.match(r"^\s*//@(\||loop\s+\d+\||loopbody\s+\d+\||loopbefore\s+\d+\||loopafter\s+\d+\||loophead\s+\d+\||standin\||closure\||fordesugar\s+\d+\||inline_unwrap_or_else\|)", lines[i]):
            cm = re.match(r"^\s*//@closure\|\s?(.*?)\s+=>\s+(.*)$", lines[i])
            if cm:
                # a closure gets its contract: `|x| expr`  =>  `|x: T| -> (r: U) ensures .. { expr }`.  The closure's
                # executable expression must reappear unchanged inside the braces (checked below).
                rewrites.append((cm.group(1), cm.group(2)))
                i += 1
                continue
            dm = re.match(r"^\s*//@fordesugar\s+(\d+)\|\s?(\w+)\s*$", lines[i])
            if dm:
                desugars.append((int(dm.group(1)), dm.group(2)))
                i += 1
                continue
            sm = re.match(r"^\s*//@standin\|\s?(.*?)\s+=>\s+(.*)$", lines[i])
            if sm:
                standins.append((sm.group(1), sm.group(2)))
                i += 1
                continue
            um = re.match(r"^\s*//@inline_unwrap_or_else\|\s?([\w.()]+)\s*$", lines[i])
            if um:
                inlines.append(um.group(1))
                i += 1
                continue
            pm = re.match(r"^\s*//@loopbefore\s+(\d+)\|\s?(.*)$", lines[i])
            if pm:
                # ghost statements placed immediately before the n-th loop
                loopspecs.setdefault(1000 + int(pm.group(1)), []).append(pm.group(2))
                i += 1
                continue
            hm = re.match(r"^\s*//@loophead\s+(\d+)\|\s?(.*)$", lines[i])
            if hm:
                # ghost statements at the very start of the n-th loop's body (before the `next()` of a desugared `for`)
                loopspecs.setdefault(3000 + int(hm.group(1)), []).append(hm.group(2))
                i += 1
                continue
            am = re.match(r"^\s*//@loopafter\s+(\d+)\|\s?(.*)$", lines[i])
            if am:
                # ghost statements placed immediately after the n-th loop
                loopspecs.setdefault(2000 + int(am.group(1)), []).append(am.group(2))
                i += 1
                continue
            lm = re.match(r"^\s*//@loop\s+(\d+)\|\s?(.*)$", lines[i])
            bm = re.match(r"^\s*//@loopbody\s+(\d+)\|\s?(.*)$", lines[i])
            if bm:
                # ghost statements (proof blocks) placed at the start of the n-th loop's body
                loopspecs.setdefault(-int(bm.group(1)), []).append(bm.group(2))
            elif lm:
                loopspecs.setdefault(int(lm.group(1)), []).append(lm.group(2))
            else:
                contract.append((re.sub(r"^\s*//@\|\s?", "", lines[i]), i + 1))
            i += 1
        path = os.path.join(REPO, rel)
        if not os.path.exists(path):
            raise extract.AnchorLost(f"file missing: {rel}")
        src = cache.setdefault(path, open(path).read())
        it = extract.find_item(src, sel)
        rec = {"file": rel, "item": " :: ".join(sel), "first_line": it.first_line, "last_line": it.last_line,
               "sha256": it.sha(), "dropped": [], "changed": []}
        if "external_body" in flags:
            out.append(indent + "#[verifier::external_body]")
            linemap.append((len(out), ("template", i)))
            rec["changed"].append("marked #[verifier::external_body]: the item is NOT verified by Verus; its assumed contract is the axiom stated next to it")
        if it.kind == "fn":
            attrs, sig, body = extract.fn_parts(it)
            kept, dropped = extract.filter_attrs(attrs)
            rec["dropped"] = dropped
            for a in kept:
                out.append(indent + a)
                linemap.append((len(out), ("repo", rel, it.first_line)))
            if contract:
                nsig = extract.named_return(sig)
                if nsig != sig:
                    rec["changed"].append("result named: `" + " ".join(sig.split()) + "` => `" + " ".join(nsig.split()) + "`")
                sig = nsig
            sig_lines = sig.split("\n")
            for k, sl in enumerate(sig_lines):
                out.append(indent + sl if k == 0 else sl)
                linemap.append((len(out), ("repo-sig", rel, it.first_line + k, sel[-1])))
            for cl, tl in contract:
                out.append(indent + "  " + cl)
                linemap.append((len(out), ("contract", tl, sel[-1], cl.strip())))
            for old, new in rewrites:
                if body.count(old) != 1:
                    raise extract.AnchorLost(f"closure `{old}` occurs {body.count(old)} times in {sel[-1]} (expected once)")
                expr = old.split("|")[-1].strip()
                if "{ " + expr + " }" not in new:
                    raise extract.AnchorLost(f"closure contract for `{old}` does not keep the closure's expression `{expr}`")
                body = body.replace(old, new)
                rec["changed"].append(f"closure `{old}` given a contract (parameter type, named result, ensures clause; its expression `{expr}` unchanged): `{new}`")
            for old, new in standins:
                body = replace_tokens(body, old, new)
                rec["changed"].append(f"stand-in: `{old}` replaced by `{new}` (assumed contract of the std iterator adapters, declared in the template)")
            for recv in inlines:
                body = inline_unwrap_or_else(body, recv)
                rec["changed"].append(f"`{recv}.unwrap_or_else(|| {{ .. }})` replaced by std's definition `match {recv} {{ Some(v) => v, None => {{ .. }} }}` (closure body text unchanged)")
            for n, itname in desugars:
                body = desugar_for(body, n, itname)
                rec["changed"].append(f"loop {n}: `for PAT in EXPR {{ .. }}` replaced by its language-defined expansion `let mut {itname} = (EXPR).into_iter(); loop {{ let Some(PAT) = {itname}.next() else {{ break; }}; .. }}` (loop body text unchanged)")
            if loopspecs:
                body = splice_loops(body, loopspecs)
                rec["changed"].append("ghost loop specifications (invariant/decreases; `proof { }` blocks at the start of a loop body) spliced into loop(s) " + ", ".join(sorted({str(abs(k) % 1000) for k in loopspecs})) + "; executable text unchanged")
            body_first_line = src.count("\n", 0, it.body_start) + 1
            for k, bl in enumerate(body.split("\n")):
                out.append(indent + bl if k == 0 else bl)
                linemap.append((len(out), ("repo-body", rel, body_first_line + k, sel[-1])))
        else:
            attrs, rest = extract.split_attrs(it)
            kept, dropped = extract.filter_attrs(attrs)
            rec["dropped"] = dropped
            for a in kept:
                out.append(indent + a)
                linemap.append((len(out), ("repo", rel, it.first_line)))
            # helper attributes of serde / clap derives on fields and variants cannot exist without those derives
            helper = re.compile(r"^\s*#\[(value|serde|clap|arg|command)\b.*\]\s*$")
            kept_lines = []
            for bl in rest.split("\n"):
                if helper.match(bl):
                    rec["dropped"].append(bl.strip())
                    kept_lines.append("")  # keep the line numbering of the item
                else:
                    kept_lines.append(bl)
            rest = "\n".join(kept_lines)
            first = it.last_line - rest.count("\n")
            for k, bl in enumerate(rest.split("\n")):
                out.append(indent + bl if k == 0 else bl)
                linemap.append((len(out), ("repo-item", rel, first + k, sel[-1])))
        manifest.append(rec)
    return "\n".join(out), dict(linemap), manifest


BODYSTART = " /*@bodystart*/"


def let_initializer(body, var):
    """text of EXPR in the unique `let <var> = EXPR;` of a function body, and the line offset where it starts"""
    toks = [(k, t, p) for k, t, p in extract.tokenize(body) if k not in ("ws", "comment")]
    hits = [i for i in range(len(toks) - 2) if toks[i][1] == "let" and toks[i + 1][1] == var and toks[i + 2][1] == "="]
    if len(hits) != 1:
        raise extract.AnchorLost(f"`let {var} =` occurs {len(hits)} times (expected once)")
    start_tok = hits[0] + 3
    depth = 0
    for k, t, p in toks[start_tok:]:
        if t in "([{" and k == "punct":
            depth += 1
        elif t in ")]}" and k == "punct":
            depth -= 1
        elif t == ";" and k == "punct" and depth == 0:
            a = toks[start_tok][2]
            return body[a:p], body.count("\n", 0, a)
    raise extract.AnchorLost(f"initializer of `let {var}` has no terminating `;`")


def braced_expr_at(body, anchor):
    pat = [t for k, t, p in extract.tokenize(anchor) if k not in ("ws", "comment")]
    opener = next((t for t in pat if t in ("{", "(")), None)
    if opener is None:
        raise extract.AnchorLost("exprat anchor must contain the opening `{` or `(`")
    closer = "}" if opener == "{" else ")"
    toks = [(k, t, p) for k, t, p in extract.tokenize(body) if k not in ("ws", "comment")]
    hits = [i for i in range(len(toks) - len(pat) + 1) if all(toks[i + j][1] == pat[j] for j in range(len(pat)))]
    if len(hits) != 1:
        raise extract.AnchorLost(f"anchor `{anchor}` occurs {len(hits)} times (expected once)")
    a = toks[hits[0]][2]
    depth = 0
    for k, t, p in toks[hits[0] + pat.index(opener):]:
        if k == "punct" and t == opener:
            depth += 1
        elif k == "punct" and t == closer:
            depth -= 1
            if depth == 0:
                return body[a:p + 1], body.count("\n", 0, a)
    raise extract.AnchorLost(f"expression at `{anchor}` is not closed")


def replace_tokens(body, old, new):
    """replace the unique occurrence of the token sequence `old` (white space and comments ignored) by `new`"""
    pat = [t for k, t, p in extract.tokenize(old) if k not in ("ws", "comment")]
    toks = [(t, p, p + len(t)) for k, t, p in extract.tokenize(body) if k not in ("ws", "comment")]
    hits = [i for i in range(len(toks) - len(pat) + 1) if all(toks[i + j][0] == pat[j] for j in range(len(pat)))]
    if len(hits) != 1:
        raise extract.AnchorLost(f"stand-in pattern `{old}` occurs {len(hits)} times (expected once)")
    a, b = toks[hits[0]][1], toks[hits[0] + len(pat) - 1][2]
    return body[:a] + new + body[b:]


def inline_unwrap_or_else(body, recv):
    pat = recv + ".unwrap_or_else(|| {"
    if body.count(pat) != 1:
        raise extract.AnchorLost(f"`{pat}` occurs {body.count(pat)} times (expected once)")
    start = body.index(pat)
    if start > 0 and re.match(r"[\w.)]", body[start - 1]):
        raise extract.AnchorLost(f"receiver of unwrap_or_else is not the plain variable `{recv}`")
    open_brace = start + len(pat) - 1
    toks = [(k, t, p) for k, t, p in extract.tokenize(body[open_brace:])]
    depth = 0
    close = None
    for k, t, p in toks:
        if k == "punct" and t == "{":
            depth += 1
        elif k == "punct" and t == "}":
            depth -= 1
            if depth == 0:
                close = open_brace + p
                break
    if close is None or not re.match(r"\s*\)", body[close + 1:]):
        raise extract.AnchorLost("unwrap_or_else closure body is not a braced block followed by `)`")
    after = close + 1 + re.match(r"\s*\)", body[close + 1:]).end()
    return (body[:start] + "match " + recv + " { Some(unwrap_or_else_value) => unwrap_or_else_value, None => "
            + body[open_brace:close + 1] + " }" + body[after:])


def desugar_for(body, n, itname):
    toks = list(extract.tokenize(body))
    count = 0
    for idx, (k, t, p) in enumerate(toks):
        if k == "ident" and t in ("while", "for", "loop"):
            count += 1
            if count != n:
                continue
            if t != "for":
                raise extract.AnchorLost(f"loop {n} is a `{t}`, not a `for`")
            # PAT up to the `in` keyword at depth 0, EXPR up to the `{` at depth 0
            depth = 0
            in_pos = brace_pos = None
            for k2, t2, p2 in toks[idx + 1:]:
                if k2 == "punct" and t2 in "([":
                    depth += 1
                elif k2 == "punct" and t2 in ")]":
                    depth -= 1
                elif depth == 0 and k2 == "ident" and t2 == "in" and in_pos is None:
                    in_pos = p2
                elif depth == 0 and k2 == "punct" and t2 == "{" and in_pos is not None:
                    brace_pos = p2
                    break
            if in_pos is None or brace_pos is None:
                raise extract.AnchorLost(f"loop {n}: cannot find `in` / `{{`")
            pat = body[p + 3:in_pos].strip()
            expr = body[in_pos + 2:brace_pos].strip()
            return (body[:p] + f"let mut {itname} = ({expr}).into_iter(); loop " + "{"
                    + f" let Some({pat}) = {itname}.next() else " + "{ break; };" + BODYSTART + body[brace_pos + 1:])
    raise extract.AnchorLost(f"loop {n} not found for desugaring")


def expand_includes(path, depth=0):
    """`//@include <file>`: the lines of a file next to the template are inserted (shared preludes of units that
    put different contracts on the same function)"""
    out = []
    for line in open(path).read().split("\n"):
        m = re.match(r"^\s*//@include\s+(\S+)\s*$", line)
        if m and depth < 3:
            inc = expand_includes(os.path.join(os.path.dirname(path), m.group(1)), depth + 1)
            if inc and inc[-1] == "":
                inc = inc[:-1]
            out.extend(inc)
        else:
            out.append(line)
    return out


def splice_loops(body, loopspecs):
    """insert ghost loop specs before the `{` that opens the n-th loop (1-based, in textual order)"""
    toks = list(extract.tokenize(body))
    inserts = []
    n = 0
    for idx, (k, t, p) in enumerate(toks):
        if k == "ident" and t in ("while", "for", "loop"):
            n += 1
            if 1000 + n in loopspecs:
                inserts.append((p, "\n    ".join(loopspecs[1000 + n]) + "\n    "))
            if n in loopspecs or -n in loopspecs or 2000 + n in loopspecs or 3000 + n in loopspecs:
                depth = 0
                for j2, (k2, t2, p2) in enumerate(toks[idx + 1:]):
                    if k2 == "punct" and t2 in "([":
                        depth += 1
                    elif k2 == "punct" and t2 in ")]":
                        depth -= 1
                    elif k2 == "punct" and t2 == "{" and depth == 0:
                        if 3000 + n in loopspecs:
                            inserts.append((p2 + 1, "\n      " + "\n      ".join(loopspecs[3000 + n]) + "\n     "))
                        if -n in loopspecs:
                            # after the `let Some(PAT) = it.next() else { break; };` of a desugared `for`, when present
                            at = p2 + 1
                            sent = body.find(BODYSTART, p2)
                            if sent >= 0 and body[p2 + 1:sent].count("{") == 1:
                                at = sent + len(BODYSTART)
                            inserts.append((at, "\n      " + "\n      ".join(loopspecs[-n])))
                        if n in loopspecs:
                            inserts.append((p2, "\n      " + "\n      ".join(loopspecs[n]) + "\n    "))
                        if 2000 + n in loopspecs:
                            d = 0
                            for k3, t3, p3 in toks[idx + 1 + j2:]:
                                if k3 == "punct" and t3 == "{":
                                    d += 1
                                elif k3 == "punct" and t3 == "}":
                                    d -= 1
                                    if d == 0:
                                        inserts.append((p3 + 1, "\n    " + "\n    ".join(loopspecs[2000 + n])))
                                        break
                        break
    for p, text in sorted(inserts, reverse=True):
        body = body[:p] + text + body[p:]
    missing = [k for k in loopspecs if (abs(k) % 1000) > n]
    if missing:
        raise extract.AnchorLost(f"loop {missing} not found in body")
    return body


if __name__ == "__main__":
    t, lm, mf = assemble(sys.argv[1])
    sys.stdout.write(t)
